import sys
sys.path.insert(0,'/repo')
from typing import Dict, Any, Optional
import importlib.util
spec=importlib.util.spec_from_file_location("inject_real","/repo/magicbot/inject.py")
inj=importlib.util.module_from_spec(spec); spec.loader.exec_module(inj)

class A: pass
class B(A): pass
class Z: pass
KINDS=[None, 0, "", A(), B(), Z()]

def prop_find(n: str, cname: str, has_n: bool, kn: int, has_p: bool, kp: int) -> bool:
    """
    pre: 0 <= kn < 6 and 0 <= kp < 6
    pre: len(n) <= 3 and len(cname) <= 2
    post: _
    """
    injectables: Dict[str, Any] = {}
    if has_n: injectables[n]=KINDS[kn]
    pk = cname + "_" + n
    if has_p: injectables[pk]=KINDS[kp]
    # spec
    exp = injectables.get(n)
    if exp is None: exp = injectables.get(pk)
    try:
        r = inj.find_injections({n: A}, injectables, cname)
    except inj.MagicInjectError:
        return exp is None or not isinstance(exp, A)
    return exp is not None and isinstance(exp, A) and r[n] is exp and len(r)==1
