import sys
sys.path[:0]=['/verif/design_probes/stubs','/repo']
import wpilib, ntcore
import magicbot.state_machine as smm
from magicbot.state_machine import StateMachine, state, timed_state, default_state
import magicbot.magic_tunable as mt
import logging; logging.disable(logging.CRITICAL)
from typing import Tuple

class Env:
    fms=False; ds_attached=True; word=(False,False,False)
    def __init__(s,t0): s.t=t0
    def now_s(s): return s.t

class M(StateMachine):
    def __init__(self): self.log=[]
    @timed_state(duration=1.0, next_state="b", first=True)
    def a(self, tm, state_tm, initial_call): self.log.append(("a",tm,state_tm,initial_call))
    @timed_state(duration=2.0)
    def b(self, state_tm, tm, initial_call): self.log.append(("b",tm,state_tm,initial_call))

def run(da: float, db: float, dts: Tuple[float,float,float,float,float,float]) -> bool:
    """
    pre: 0 <= da <= 100 and 0 <= db <= 100
    pre: all(0 <= d <= 100 for d in dts)
    post: _
    """
    ntcore.reset()
    env=Env(0.0); wpilib.ENV=env
    sm=M(); mt.setup_tunables(sm,"m")
    sm.a_duration=da; sm.b_duration=db
    for d in dts:
        sm.engage(); sm.execute(); env.t=env.t+d
    return all(stm>=0 for (_,_,stm,_) in sm.log)
