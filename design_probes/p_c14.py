import sys, time, types, tempfile, os, shutil, importlib
sys.path[:0]=['/verif/design_probes/stubs','/verif/design_probes','/repo']
import z3
from symex import *
import wpilib, hal
import logging; logging.disable(logging.CRITICAL)
import robotpy_ext.autonomous.selector as sel

tmp=tempfile.mkdtemp(prefix="c14pkg_"); pkg=os.path.join(tmp,"autopkg"); os.mkdir(pkg)
open(os.path.join(pkg,"__init__.py"),"w").write("")
for m,classes in (("m1",["A","B"]),("m2",["C"])):
    src="import c14reg as R\n"
    src+=f"if R.flag('{m}.importfail'): raise RuntimeError('import {m}')\n"
    for cn in classes:
        src+=f'''
class {cn}:
    if R.flag('{cn}.named'): MODE_NAME = R.name('{cn}')
    DISABLED = R.flag('{cn}.disabled')
    DEFAULT = R.flag('{cn}.default')
    def __init__(self):
        R.LOG.append(('init','{cn}'))
        if R.flag('{cn}.ctorfail'): raise RuntimeError('ctor {cn}')
    def on_enable(self): R.LOG.append(('on_enable','{cn}'))
    def on_iteration(self,t): R.LOG.append(('on_iteration','{cn}',t))
    def on_disable(self): R.LOG.append(('on_disable','{cn}'))
'''
    open(os.path.join(pkg,m+".py"),"w").write(src)
sys.path.insert(0,tmp)
reg=types.ModuleType("c14reg"); sys.modules["c14reg"]=reg
reg.LOG=[]
def flag(n):
    c=Ctx.cur
    if n not in c.flags: c.flags[n]=bool(SBool(c.fresh(n,z3.BoolSort())))
    return c.flags[n]
reg.flag=flag
reg.name=lambda cn: "A" if (cn=="B" and flag("B.dupname")) else cn
class Env:
    ds_attached=True; word=(False,False,False)
    def __init__(s,c): s.fms=SBool(c.fresh("fms",z3.BoolSort())); s.t=0
    def now_s(s): return s.t
stats={}
def path(c):
    c.flags={}; reg.LOG.clear(); wpilib.ENV=Env(c); wpilib.SmartDashboard.data.clear()
    for k in [k for k in sys.modules if k=="autopkg" or k.startswith("autopkg.")]: del sys.modules[k]
    importlib.invalidate_caches()
    try:
        s=sel.AutonomousModeSelector("autopkg"); out=("ok",tuple(sorted(s.modes)),s.chooser.default)
    except RuntimeError as e:
        out=("raised",str(e)[:30])
    stats[out[0]]=stats.get(out[0],0)+1
    c.out=out
    return []
t=time.time(); r=explore(path); print({k:v for k,v in r.items() if k!="violations"}, stats, round(time.time()-t,2))
shutil.rmtree(tmp)
