import sys, time, types
sys.path[:0]=['/verif/design_probes/stubs','/verif/design_probes','/repo']
import z3
from symex import *
import wpilib, hal
import robotpy_ext.misc.precise_delay as pd
import robotpy_ext.control.toggle as tg

class SInt(SNum): pass
def sym_int(x):
    if isinstance(x,SNum): return SInt(z3.ToReal(z3.ToInt(x.e)))
    return int(x)
pd.int=sym_int
tg.float=lambda x: x if isinstance(x,SNum) else float(x)

# ---------- C16
K=int(sys.argv[1]) if len(sys.argv)>1 else 6
class EnvN:
    def __init__(s,c):
        s.c=c; s.t=SNum(c.fresh("t0",z3.IntSort())); s.t=SNum(z3.ToReal(z3.Int("t0"))); c.solver.add(z3.Int("t0")>=0)
        s.alarm=None; s.stopped=0; s.cleaned=0; s.waits=0
    def now_us(s): return s.t
    def notifier_init(s): return (7,0)
    def notifier_update(s,h,t): s.alarm=t
    def notifier_stop(s,h): s.stopped+=1
    def notifier_clean(s,h): s.cleaned+=1
    def notifier_wait(s,h):
        s.waits+=1
        if s.alarm > s.t: s.t=s.alarm
        return s.t
def path16(c):
    env=EnvN(c); wpilib.ENV=env
    P=SNum(c.fresh("P",z3.RealSort())); c.solver.add(P.e>=lift(0.001), P.e<=100)
    t0=env.t
    nd=pd.NotifierDelay(P)
    Pus=nd.delay_period
    obs=[]
    for k in range(1,K+1):
        b=z3.Int(f"body{k}"); c.solver.add(b>=0); env.t=env.t+SNum(z3.ToReal(b))
        before=env.t
        nd.wait()
        grid=lift(t0)+k*lift(Pus)
        obs.append((f"k{k} not early", lift(env.t)>=grid))
        obs.append((f"k{k} exact if body done", z3.Implies(lift(before)<=grid, lift(env.t)==grid)))
        obs.append((f"k{k} alarm on grid", lift(env.alarm)==lift(t0)+(k+1)*lift(Pus)))
    nd.free(); w=env.waits; tt=env.t; nd.wait()
    obs.append(("free: no wait", z3.BoolVal(env.waits==w and env.stopped==1 and env.cleaned==1)))
    return obs
t=time.time(); r=explore(path16); print("C16:",{k:v for k,v in r.items() if k!="violations"},"nviol",len(r["violations"]),round(time.time()-t,2))
for v in r["violations"][:2]: print(v[0],v[2])

# ---------- C19 Toggle with debounce
class Joy:
    def __init__(s): s.level=False
    def getRawButton(s,b): return s.level
class EnvT:
    def __init__(s,c): s.c=c; s.t=SNum(c.fresh("T0",z3.RealSort())); c.solver.add(s.t.e>=0)
    def now_s(s): return s.t
def path19(c):
    env=EnvT(c); wpilib.ENV=env
    j=Joy(); P=SNum(c.fresh("P",z3.RealSort())); c.solver.add(P.e>0)
    T=tg.Toggle(j,1,P)
    flips=[]; prev=False
    obs=[]
    for k in range(K):
        d=c.fresh(f"dt{k}",z3.RealSort()); c.solver.add(d>=0); env.t=env.t+SNum(d)
        j.level=SBool(c.fresh(f"lv{k}",z3.BoolSort()))
        acc=c.choose(f"acc{k}",4)
        before=T.state
        if acc==0: T.get()
        elif acc==1: T.on
        elif acc==2: T.off
        else: bool(T)
        if T.state!=before: flips.append(env.t)
    for a,b in zip(flips,flips[1:]):
        obs.append(("flips >= period apart", lift(b)-lift(a)>=P.e))
    return obs
t=time.time(); r=explore(path19); print("C19 toggle:",{k:v for k,v in r.items() if k!="violations"},"nviol",len(r["violations"]),round(time.time()-t,2))
for v in r["violations"][:2]: print(v[0],v[2])
