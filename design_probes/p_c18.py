import sys, time, types
sys.path[:0]=['/verif/design_probes/stubs','/verif/design_probes','/repo']
import z3
from symex import *
import wpilib
wpilib.AnalogInput.getAverageVoltage=lambda self: self.v
import robotpy_ext.common_drivers.pressure_sensors as ps
import robotpy_ext.common_drivers.units as u

def path(c):
    s=object.__new__(ps.REVAnalogPressureSensor); s.sensor=wpilib.AnalogInput(0)
    V=SNum(c.fresh("V",z3.RealSort())); Vcc=SNum(c.fresh("Vcc",z3.RealSort())); p=SNum(c.fresh("p",z3.RealSort()))
    c.solver.add(p.e>=0, p.e<=1000)
    s.sensor.v=V; s.voltage_in=Vcc
    obs=[]
    r=s.pressure
    obs.append(("formula", z3.Implies(z3.And(V.e>=lift(0.00001), Vcc.e!=0), lift(r)==250*V.e/Vcc.e-25)))
    s.calibrate(p)
    r2=s.pressure
    dd=lift(r2)-p.e; tol=lift(1e-9)*(1+p.e)
    obs.append(("calibrated", z3.And(dd<=tol,-dd<=tol)))
    return obs
t=time.time(); r=explore(path); print("pressure:",{k:v for k,v in r.items() if k!="violations"},"nviol",len(r["violations"]),round(time.time()-t,2))
for v in r["violations"][:2]: print(v[0],v[2])
units=[u.meter,u.centimeter,u.foot,u.inch]
def pathu(c):
    x=SNum(c.fresh("x",z3.RealSort()))
    obs=[]
    for a in units:
        obs.append(("id",lift(u.convert(a,a,x))==x.e))
        for b in units:
            obs.append(("inv",lift(u.convert(b,a,u.convert(a,b,x)))==x.e))
            for cc in units:
                obs.append(("comp",lift(u.convert(b,cc,u.convert(a,b,x)))==lift(u.convert(a,cc,x))))
    obs.append(("cm/m", lift(u.convert(u.meter,u.centimeter,x))==100*x.e))
    return obs
t=time.time(); r=explore(pathu); print("units:",{k:v for k,v in r.items() if k!="violations"},"nviol",len(r["violations"]),round(time.time()-t,2))
