import sys,time
sys.path[:0]=['/repo']
import z3
import robotpy_ext.misc.crc7 as m
tab=list(m._crc7_table)
def ref8(x):
    for _ in range(8):
        x=z3.If(z3.Extract(0,0,x)==1, z3.LShR(x^0x91,1), z3.LShR(x,1))
    return x
def ite_tab(i):
    e=z3.BitVecVal(tab[255],8)
    for k in range(254,-1,-1): e=z3.If(i==k, z3.BitVecVal(tab[k],8), e)
    return e
i=z3.BitVec('i',8)
t=time.time(); s=z3.Solver(); s.set("timeout",60000); s.add(ite_tab(i)!=ref8(i)); print("table lemma (ITE):",s.check(), round(time.time()-t,2))
T=z3.Function('T',z3.BitVecSort(8),z3.BitVecSort(8))
t=time.time(); s=z3.Solver(); s.set("timeout",60000)
for k in range(256): s.add(T(k)==tab[k])
s.add(T(i)!=ref8(i)); print("table lemma (UF ground):",s.check(), round(time.time()-t,2))
# error-detection on ref circuit directly (justified by lemma), N bytes
def crc_ref(ds):
    c=z3.BitVecVal(0,8)
    for d in ds: c=ref8(c^d)
    return c
for N,cap in ((4,60),(8,120),(16,300)):
    ds=[z3.BitVec(f"e{k}",8) for k in range(N)]
    out=crc_ref(ds)
    bits=z3.Concat(*reversed(ds))
    W=8*N
    pos=z3.BitVec('pos',W); pat=z3.BitVec('pat',W)
    t=time.time(); s=z3.Solver(); s.set("timeout",cap*1000)
    s.add(z3.ULE(pos,W-7), z3.ULT(pat,128), pat!=0, bits==(pat<<pos), out==0)
    print("burst<=7 N=",N,s.check(), round(time.time()-t,2))
    # two-bit errors
    p1=z3.BitVec('p1',W); p2=z3.BitVec('p2',W)
    t=time.time(); s=z3.Solver(); s.set("timeout",cap*1000)
    one=z3.BitVecVal(1,W)
    s.add(z3.ULT(p1,p2), z3.ULT(p2,W), z3.ULT(p2-p1,127), bits==((one<<p1)|(one<<p2)), out==0)
    print("2-bit N=",N,s.check(), round(time.time()-t,2))
# bijection lemma: zero-byte step on 7-bit states injective, and T(c)==0 iff c==0 for c<128
a=z3.BitVec('a',8); b=z3.BitVec('b',8)
t=time.time(); s=z3.Solver(); s.add(z3.ULT(a,128),z3.ULT(b,128),a!=b, ref8(a)==ref8(b)); print("zero-step injective:",s.check(), round(time.time()-t,2))
s=z3.Solver(); s.add(z3.UGE(ref8(a),128)); print("range<128:",s.check())
