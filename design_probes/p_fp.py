import z3,time
F=z3.Float64(); rm=z3.RNE()
now,start,exp_,st=[z3.FP(n,F) for n in ("now","start","exp","st")]
def fin(x): return z3.And(z3.Not(z3.fpIsNaN(x)),z3.Not(z3.fpIsInf(x)))
rng=lambda x,lo,hi: z3.And(x>=z3.FPVal(lo,F), x<=z3.FPVal(hi,F))
# kernel 1: state_tm = tm - start_time where start_time = expires_prev < tm  => state_tm>=0
tm=z3.fpSub(rm,now,start)
s=z3.Solver(); s.set("timeout",60000)
s.add(rng(now,0,1e6),rng(start,0,1e6),rng(exp_,0,1e6), exp_<tm, z3.fpSub(rm,tm,exp_)<z3.FPVal(0,F))
t=time.time(); print("k1 stm>=0:",s.check(),round(time.time()-t,2))
# kernel 2: restart via start'=start+exp; tm'=now-start' >= 0 ?
s=z3.Solver(); s.set("timeout",120000)
start2=z3.fpAdd(rm,start,exp_); tm2=z3.fpSub(rm,now,start2)
s.add(rng(now,0,1e6),rng(start,0,1e6),rng(exp_,0,1e6), start<=now, exp_<tm, tm2<z3.FPVal(0,F))
t=time.time(); r=s.check(); print("k2 restart tm'>=0:",r,round(time.time()-t,2))
if r==z3.sat: print(s.model())
