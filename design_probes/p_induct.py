"""Layer-B probe: one execute() of the real StateMachine from a symbolic pre-state."""
import sys, time
sys.path[:0]=['/verif/design_probes/stubs','/verif/design_probes','/repo']
import z3
from symex import *
import wpilib, ntcore
from magicbot.state_machine import StateMachine, state, timed_state, default_state
import magicbot.magic_tunable as mt
import logging; logging.disable(logging.CRITICAL)

class Env:
    fms=False
    def __init__(s,c):
        s.c=c; s.t=SNum(c.fresh("now",z3.RealSort())); c.solver.add(s.t.e>=0, s.t.e<=1000000)
    def now_s(s): return s.t

class M(StateMachine):
    def __init__(self): self.log=[]
    @state(first=True)
    def a(self, tm): self.log.append("a")
    @timed_state(duration=1.0, next_state="m")
    def b(self, tm): self.log.append("b")
    @timed_state(duration=1.0, must_finish=True, next_state="p")
    def m(self, tm): self.log.append("m")
    @state
    def p(self, tm): self.log.append("p")
    @default_state
    def d(self): self.log.append("d")
REGULAR={"a","b","p"}
def path(c):
    ntcore.reset(); wpilib.ENV=Env(c)
    sm=M(); mt.setup_tunables(sm,"m")
    P="_StateMachine__"
    states=getattr(sm,P+"states")
    se=SBool(c.fresh("should_engage",z3.BoolSort())); en=SBool(c.fresh("engaged",z3.BoolSort()))
    setattr(sm,P+"should_engage",se); setattr(sm,P+"engaged",en)
    k=c.choose("cur",len(states)+1)
    names=list(states)
    cur = None if k==len(states) else states[names[k]]
    setattr(sm,P+"state",cur)
    start=SNum(c.fresh("start",z3.RealSort())); c.solver.add(start.e>=0, start.e<=wpilib.ENV.t.e)
    setattr(sm,P+"start",start)
    for n,sd in states.items():
        sd.ran=SBool(c.fresh(f"ran_{n}",z3.BoolSort()))
        sd.start_time=SNum(c.fresh(f"st_{n}",z3.RealSort()))
        sd.expires=SNum(c.fresh(f"ex_{n}",z3.RealSort()))
        c.solver.add(sd.start_time.e>=0, sd.expires.e>=sd.start_time.e)
        if not hasattr(sd,'next_state'): c.solver.add(sd.expires.e==sd.start_time.e+0xFFFFFFFF)
    sm.execute()
    obs=[]
    for n in sm.log:
        if n in REGULAR: obs.append((f"regular {n} needs engage", se.e))
    # stopped predicate after a non-engaged step from a non-must_finish state
    post=getattr(sm,P+"state")
    if cur is None or not cur.must_finish:
        obs.append(("no engage => stopped", z3.Or(se.e, z3.BoolVal(post is None or post is states["d"]))))
    c.cur=(names[k] if cur else None, list(sm.log))
    return obs
t=time.time(); r=explore(path)
print({k:v for k,v in r.items() if k!="violations"}, "nviol",len(r["violations"]), "wall",round(time.time()-t,2))
for v in r["violations"][:3]: print(v[0], v[2])
