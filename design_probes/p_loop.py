import sys, time, types
sys.path[:0]=['/verif/design_probes/stubs','/verif/design_probes','/repo']
import z3
from symex import *
import wpilib, ntcore, hal
import magicbot
from magicbot import MagicRobot, will_reset_to, feedback, tunable
import logging; logging.disable(logging.CRITICAL)

K=int(sys.argv[1]) if len(sys.argv)>1 else 3
class Boom(Exception): pass
class Env:
    ds_attached=True
    def __init__(s,c,robot_ref):
        s.c=c; s.t=0; s.k=0; s.word=(False,False,False); s.robot=robot_ref
        s.fms=SBool(c.fresh("fms",z3.BoolSort()))
        s.alarm={}; s.nh=0; s.errors=[]
    def now_us(s): return s.t
    def now_s(s): return s.t/1e6
    def refresh(s):
        s.k+=1
        if s.k>K:
            s.robot[0].endCompetition(); return
        e=SBool(s.c.fresh(f"en{s.k}",z3.BoolSort())); a=SBool(s.c.fresh(f"au{s.k}",z3.BoolSort())); t=SBool(s.c.fresh(f"te{s.k}",z3.BoolSort()))
        s.word=(bool(e),bool(a),bool(t))
        LOG.append(("ds",s.word))
    def notifier_init(s): s.nh+=1; return (s.nh,0)
    def notifier_stop(s,h): pass
    def notifier_clean(s,h): pass
    def notifier_update(s,h,t): s.alarm[h]=t
    def notifier_wait(s,h):
        s.t=max(s.t,s.alarm[h]); return s.t
LOG=[]
class C1:
    x=will_reset_to(0)
    def setup(self): LOG.append("c1.setup")
    def on_enable(self): LOG.append("c1.on_enable")
    def on_disable(self): LOG.append("c1.on_disable")
    def execute(self): LOG.append("c1.execute"); FAULT("c1.execute")
    @feedback
    def get_v(self)->float: LOG.append("c1.fb"); return 1.0
class C2(C1):
    def setup(self): LOG.append("c2.setup")
    def on_enable(self): LOG.append("c2.on_enable")
    def on_disable(self): LOG.append("c2.on_disable")
    def execute(self): LOG.append("c2.execute")
def FAULT(site):
    e=wpilib.ENV
    if e.site==site:
        LOG.append("raise "+site); raise Boom(site)
class R(MagicRobot):
    c1:C1
    c2:C2
    def createObjects(self): pass
    def teleopInit(self): LOG.append("teleopInit")
    def teleopPeriodic(self): LOG.append("teleopPeriodic")
    def disabledInit(self): LOG.append("disabledInit")
    def disabledPeriodic(self): LOG.append("disabledPeriodic")
    def autonomousInit(self): LOG.append("autonomousInit")
    def testInit(self): LOG.append("testInit")
    def testPeriodic(self): LOG.append("testPeriodic")
    def robotPeriodic(self): LOG.append("robotPeriodic")

def path(c):
    ntcore.reset(); LOG.clear()
    ref=[None]
    env=Env(c,ref); wpilib.ENV=env
    env.site="c1.execute"
    r=R(); ref[0]=r
    r.use_teleop_in_autonomous=SBool(c.fresh("utia",z3.BoolSort()))
    try:
        r.startCompetition()
        LOG.append("exit-normal")
    except Boom as e:
        LOG.append("exit-boom")
    c.log=list(LOG)
    return []
t=time.time()
logs=[]
def p2(c):
    o=path(c); logs.append(c.log); return o
r=explore(p2)
print({k:v for k,v in r.items() if k!="violations"}, "wall",round(time.time()-t,2))
import collections
print(collections.Counter(l[-1] for l in logs))
print(logs[len(logs)//2])
