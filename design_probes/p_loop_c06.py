import sys
sys.argv=[sys.argv[0]]+sys.argv[1:]
exec(open('p_loop.py').read().split("t=time.time()")[0])
def path2(c):
    ntcore.reset(); LOG.clear()
    ref=[None]; env=Env(c,ref); wpilib.ENV=env; env.site=None
    env.fms=False
    r=R(); ref[0]=r
    r.startCompetition()
    c.log=list(LOG); return []
bad=[]
def chk(log):
    enabled={"c1":False,"c2":False}; setup=set(); seen_other=False
    for i,e in enumerate(log):
        if isinstance(e,tuple): continue
        if "." in e:
            comp,what=e.split(".")
            if what=="setup":
                if seen_other: return f"setup after other callback at {i}"
                if comp in setup: return "setup twice"
                setup.add(comp)
            else:
                seen_other=True
                if what=="on_enable": enabled[comp]=True
                elif what=="on_disable": enabled[comp]=False
                elif what=="execute" and not enabled[comp]: return f"execute while not enabled at {i}"
        else:
            seen_other=True
            if e in ("teleopInit","autonomousInit") and not all(enabled.values()): return f"{e} before on_enable at {i}"
            if e in ("disabledInit","disabledPeriodic","testInit","testPeriodic") and any(enabled.values()): return f"{e} while enabled at {i}"
    return None
n=0
def p3(c):
    global n
    o=path2(c); n+=1
    m=chk(c.log)
    if m: bad.append((m,c.log))
    return o
r=explore(p3)
print("paths",n,"bad",len(bad))
for m,l in bad[:3]: print(m); print(l)
