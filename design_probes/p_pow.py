"""C17 probe: real getDistance/setDistance with math.pow abstracted as UF + instantiated axioms."""
import sys, time, math, types
sys.path[:0]=['/verif/design_probes/stubs','/verif/design_probes','/repo']
import z3
from symex import *
import wpilib
wpilib.simulation=types.ModuleType("wpilib.simulation"); sys.modules["wpilib.simulation"]=wpilib.simulation
class AnalogInputSim:
    def __init__(self,ai): self.ai=ai
    def setVoltage(self,v): self.ai.v=v
wpilib.simulation.AnalogInputSim=AnalogInputSim
wpilib.AnalogInput.getVoltage=lambda self: self.v
import robotpy_ext.common_drivers.distance_sensors as ds
import robotpy_ext.common_drivers.distance_sensors_sim as dsim

PW=z3.Function("pw",z3.RealSort(),z3.RealSort(),z3.RealSort())
class SymMath:
    apps=[]
    @staticmethod
    def pow(x,a):
        xe=lift(x); ae=lift(a)
        SymMath.apps.append((xe,ae))
        return SNum(PW(xe,ae))
def axioms(apps, extra_points=()):
    ax=[]
    for (x,a) in apps:
        ax.append(z3.Implies(x>0, PW(x,a)>0))
        ax.append(z3.Implies(z3.And(x>0,a==1), PW(x,a)==x))
    for i,(x,a) in enumerate(apps):
        for (y,b) in apps[i+1:]:
            # monotone in base for equal exponent
            ax.append(z3.Implies(z3.And(a==b,x>0,y>0,a<0,x<=y), PW(x,a)>=PW(y,b)))
            ax.append(z3.Implies(z3.And(a==b,x>0,y>0,a<0,y<=x), PW(y,b)>=PW(x,a)))
            ax.append(z3.Implies(z3.And(a==b,x==y), PW(x,a)==PW(y,b)))
    return ax
ds.math=SymMath; dsim.math=SymMath

def reading(cls, v):
    s=object.__new__(cls); s.distance=wpilib.AnalogInput(0); s.distance.v=v
    return s.getDistance()

res={}
def path_mono(c):
    SymMath.apps=[]
    v1=SNum(c.fresh("v1",z3.RealSort())); v2=SNum(c.fresh("v2",z3.RealSort()))
    c.solver.add(v1.e<=v2.e)
    r1=reading(ds.SharpIR2Y0A02,v1); r2=reading(ds.SharpIR2Y0A02,v2)
    c.solver.add(*axioms(SymMath.apps))
    return [("bounded1", z3.And(lift(r1)>=22.5, lift(r1)<=145)), ("mono", lift(r1)>=lift(r2))]
t=time.time(); r=explore(path_mono); print("mono/bounds:",{k:v for k,v in r.items() if k!="violations"},"nviol",len(r["violations"]),round(time.time()-t,2))
for v in r["violations"][:2]: print(v[0],v[2])

def path_inv(c):
    SymMath.apps=[]
    d=SNum(c.fresh("d",z3.RealSort()))
    s=object.__new__(ds.SharpIR2Y0A02); s.distance=wpilib.AnalogInput(0); s.distance.v=0
    sim=object.__new__(dsim.SharpIR2Y0A02Sim); sim._sim=AnalogInputSim(s.distance); sim._distance=0
    sim.setDistance(d)
    r=s.getDistance()
    # composition axiom instances: pw(pw(x,a),b)=pw(x,a*b), with a*b treated as 1 after concrete check
    E=-1.092; assert abs((1/E)*E-1)<2**-50
    ax=axioms(SymMath.apps)
    (x0,a0),(x1,a1)=SymMath.apps[0],SymMath.apps[1]
    # x1 is max(pw(x0,a0),floor) ; on the branch where x1==pw(x0,a0): pw(x1,a1)==x0
    ax.append(z3.Implies(z3.And(x0>0, x1==PW(x0,a0)), PW(x1,a1)==x0))
    # ground facts from real libm at clamp end-points + monotonic => v >= floor
    lo,hi=22.5,145.0
    for p in (lo*(1-1e-9),hi*(1+1e-9)):
        xx=lift(p/62.28); val=math.pow(p/62.28,1/E)
        ax.append(PW(xx,lift(1/E))==lift(val))
    for (x,a) in SymMath.apps[:1]:
        for p in (lo*(1-1e-9),hi*(1+1e-9)):
            xx=lift(p/62.28)
            ax.append(z3.Implies(z3.And(x>0,x<=xx), PW(x,a)>=PW(xx,a)))
            ax.append(z3.Implies(z3.And(x>0,x>=xx), PW(x,a)<=PW(xx,a)))
    c.solver.add(*ax)
    clamp=z3.If(d.e>hi,hi,z3.If(d.e<lo,lo,d.e))
    diff=lift(r)-clamp
    return [("sim-inverse", z3.And(diff<=clamp*lift(1e-9), -diff<=clamp*lift(1e-9))), ("helper-get", lift(sim.getDistance())==d.e)]
t=time.time(); r=explore(path_inv); print("inverse:",{k:v for k,v in r.items() if k!="violations"},"nviol",len(r["violations"]),round(time.time()-t,2))
for v in r["violations"][:2]: print(v[0],v[2])
