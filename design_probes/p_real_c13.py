import sys
sys.path[:0]=['/repo']
import logging; logging.disable(logging.CRITICAL)
import magicbot.state_machine as smm
from magicbot.state_machine import StateMachine, AutonomousStateMachine, state, timed_state, default_state
from magicbot.magic_tunable import setup_tunables
T=[0.0]; smm.getTime=lambda: T[0]
class A(AutonomousStateMachine):
    VERBOSE_LOGGING=False
    def __init__(self): self.log=[]
    @timed_state(duration=1.0, first=True)
    def a(self, tm): self.log.append(("a",tm))
    @default_state
    def d(self, initial_call): self.log.append(("d",initial_call))
sm=A(); setup_tunables(sm,"x1")
sm.on_enable()
for t in [0,0.5,1.5,2.0,2.5]:
    T[0]=t; sm.on_iteration(t); sm.log.append(("exec?",sm.is_executing))
print("C13+default:",sm.log)
class B(StateMachine):
    def __init__(self): self.log=[]
    @state(first=True)
    def a(self):
        self.log.append("a"); self.next_state_now("b"); self.next_state_now("c")
    @state
    def b(self): self.log.append("b")
    @state
    def c(self): self.log.append("c")
    def done(self): self.log.append("done"); super().done()
sm=B(); setup_tunables(sm,"x2"); sm.engage(); sm.execute(); print("double nsn:",sm.log, sm.is_executing, repr(sm.current_state))
