import sys, threading, time
sys.path[:0]=['/repo']
import hal, hal.simulation as hs, wpilib, wpilib.simulation as ws
import magicbot, logging
logging.disable(logging.CRITICAL)
LOG=[]
WHICH=sys.argv[1]
class C1:
    def execute(self): LOG.append("c1.execute")
class R(magicbot.MagicRobot):
    c1:C1
    use_teleop_in_autonomous = True
    def createObjects(self): pass
    def teleopPeriodic(self):
        LOG.append("teleopPeriodic")
        if WHICH=="tp" and wpilib.DriverStation.isAutonomousEnabled(): raise RuntimeError("tp boom")
    def robotPeriodic(self):
        LOG.append("robotPeriodic")
        if WHICH=="rp": raise RuntimeError("rp boom")
hs.pauseTiming(); hs.restartTiming()
ws.DriverStationSim.resetData()
r=R(); err=[]
def run():
    try: r.startCompetition()
    except BaseException as e: err.append(repr(e))
th=threading.Thread(target=run,daemon=True); th.start()
hs.waitForProgramStart()
ws.DriverStationSim.setFmsAttached(True); ws.DriverStationSim.setDsAttached(True)
ws.DriverStationSim.setEnabled(True); ws.DriverStationSim.setAutonomous(WHICH=="tp"); ws.DriverStationSim.notifyNewData()
for _ in range(3):
    if th.is_alive(): ws.stepTiming(0.02)
time.sleep(0.2)
print(WHICH,"robot thread alive:",th.is_alive(),"escaped:",err, "fms:", wpilib.DriverStation.isFMSAttached())
print(LOG)
import os; os._exit(0)
