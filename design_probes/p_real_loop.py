import sys, threading, time
sys.path[:0]=['/repo']
import hal, hal.simulation as hs, wpilib, wpilib.simulation as ws
import magicbot, logging
logging.disable(logging.CRITICAL)
LOG=[]
class C1:
    def setup(self): LOG.append("c1.setup")
    def on_enable(self): LOG.append("c1.on_enable")
    def on_disable(self): LOG.append("c1.on_disable")
    def execute(self): LOG.append("c1.execute")
class R(magicbot.MagicRobot):
    c1:C1
    def createObjects(self): pass
    def teleopInit(self): LOG.append("teleopInit")
    def teleopPeriodic(self): LOG.append(("teleopPeriodic", wpilib.RobotController.getFPGATime()))
    def disabledInit(self): LOG.append("disabledInit")
    def disabledPeriodic(self): LOG.append(("disabledPeriodic", wpilib.RobotController.getFPGATime()))
    def autonomousInit(self): LOG.append("autonomousInit")
    def testInit(self): LOG.append("testInit")
    def testPeriodic(self): LOG.append("testPeriodic")
    def robotPeriodic(self): LOG.append("robotPeriodic")
hs.pauseTiming(); hs.restartTiming()
ws.DriverStationSim.resetData()
r=R()
err=[]
def run():
    try: r.startCompetition()
    except BaseException as e: err.append(e)
th=threading.Thread(target=run,daemon=True); th.start()
hs.waitForProgramStart()
def word(en,au,te,n):
    ws.DriverStationSim.setEnabled(en); ws.DriverStationSim.setAutonomous(au); ws.DriverStationSim.setTest(te)
    ws.DriverStationSim.setDsAttached(True)
    ws.DriverStationSim.notifyNewData()
    for _ in range(n): ws.stepTiming(0.02)
t=time.time()
word(False,False,False,2)
word(True,False,False,3)
word(True,True,False,2)
word(False,False,False,1)
r.endCompetition()
ws.stepTiming(0.02)
th.join(2)
print("alive",th.is_alive(),"err",err,"wall",round(time.time()-t,3))
print(LOG)
