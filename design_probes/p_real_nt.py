import sys
sys.path[:0]=['/repo']
import ntcore
from magicbot.magic_tunable import tunable, setup_tunables
inst=ntcore.NetworkTableInstance.getDefault()
# pre-existing values
pub=inst.getDoubleTopic("/components/c1/keep").publish(); pub.set(7.0)
pub2=inst.getDoubleTopic("/components/c1/over").publish(); pub2.set(8.0)
class C:
    keep=tunable(1.0, writeDefault=False)
    over=tunable(2.0)
    sub=tunable(3, subtable="st")
c1=C(); c2=C()
setup_tunables(c1,"c1"); setup_tunables(c2,"c2")
print("keep",c1.keep,"over",c1.over,"c2.keep",c2.keep,"c2.over",c2.over)
pub.set(9.0); print("after NT write keep:",c1.keep, "c2 unaffected:",c2.keep)
c1.keep=11.0; s=inst.getDoubleTopic("/components/c1/keep").subscribe(0.0); print("NT sees python write:",s.get())
print("sub key type:",inst.getTopic("/components/c1/st/sub").getTypeString(), inst.getTopic("/components/c1/st/sub").exists())
a=C(); setup_tunables(a,"Mode","autonomous"); r=C(); setup_tunables(r,"robot",None)
print(inst.getTopic("/autonomous/Mode/over").exists(), inst.getTopic("/robot/over").exists())
