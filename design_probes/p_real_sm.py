import sys
sys.path[:0]=['/repo']
import logging; logging.disable(logging.CRITICAL)
import magicbot.state_machine as smm
from magicbot.state_machine import StateMachine, state, timed_state, default_state
from magicbot.magic_tunable import setup_tunables
T=[0.0]
smm.getTime=lambda: T[0]
class M(StateMachine):
    def __init__(self): self.log=[]
    @timed_state(duration=0.25, next_state="b", first=True)
    def a(self, tm, state_tm, initial_call): self.log.append(("a",tm,state_tm,initial_call))
    @timed_state(duration=0.0)
    def b(self, state_tm, tm, initial_call): self.log.append(("b",tm,state_tm,initial_call))
    def done(self): self.log.append("done"); super().done()
sm=M(); setup_tunables(sm,"m1")
for t in [0,0.5,0.5,0.5,0.6,0.8]:
    T[0]=t; sm.engage(); sm.execute(); sm.log.append(("is_executing",sm.is_executing,sm.current_state))
print("C02/C03 restart:"); [print("  ",l) for l in sm.log]

class D(StateMachine):
    def __init__(self): self.log=[]
    @state(first=True)
    def a(self, tm, initial_call): self.log.append(("a",tm,initial_call))
    @default_state
    def d(self, initial_call): self.log.append(("d",initial_call))
    def done(self): self.log.append("done"); super().done()
sm=D(); setup_tunables(sm,"m2")
T[0]=1.0; sm.engage(); sm.execute()
T[0]=2.0; sm.execute(); sm.log.append(("after-stop",sm.is_executing,sm.current_state))
T[0]=3.0; sm.execute(); sm.log.append(("idle",sm.is_executing,sm.current_state))
T[0]=5.0; sm.engage(); sm.execute(); sm.log.append(("re-engaged",sm.is_executing,sm.current_state))
print("C04 default fallback:"); [print("  ",l) for l in sm.log]

import ntcore
from robotpy_ext.autonomous import StatefulAutonomous, timed_state as ts, state as st
class A(StatefulAutonomous):
    MODE_NAME="A"
    @st(first=True)
    def s0(self, tm, initial_call):
        LOG.append(("s0",tm,initial_call))
        if tm>=self.go: self.next_state("s1")
    @ts(duration=1.0, next_state="s2")
    def s1(self, tm, state_tm, initial_call): LOG.append(("s1",tm,state_tm,initial_call))
    @st
    def s2(self, tm, initial_call): LOG.append(("s2",tm,initial_call)); self.done()
LOG=[]
a=A()
a.go=0.0; a.on_enable()
for tm in [0.0,0.1,0.5,1.2,1.3]: a.on_iteration(tm)
LOG.append("---- second period, s1 entered later than its stale expiry (1.1)")
a.go=2.0; a.on_enable()
for tm in [0.0,1.0,2.0,2.1,2.2]: a.on_iteration(tm)
print("C15:"); [print("  ",l) for l in LOG]
