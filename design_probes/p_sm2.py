import sys, time
sys.path[:0]=['/verif/design_probes/stubs','/verif/design_probes','/repo']
import z3
from symex import *
import wpilib, ntcore
assert 'stubs' in wpilib.__file__
import magicbot.state_machine as smm
from magicbot.state_machine import StateMachine, state, timed_state, default_state
import magicbot.magic_tunable as mt

K=int(sys.argv[1]) if len(sys.argv)>1 else 3
class Env:
    fms=False; ds_attached=True; word=(False,False,False)
    def __init__(s,c):
        s.c=c; s.t=SNum(c.fresh("t0",z3.RealSort())); c.solver.add(s.t.e>=0); s.n=0
    def now_s(s):
        s.n+=1; d=s.c.fresh(f"rd{s.n}",z3.RealSort()); s.c.solver.add(d>=0); s.t=s.t+SNum(d); return s.t

class M(StateMachine):
    def __init__(self): self.log=[]
    @timed_state(duration=1.0, next_state="b", first=True)
    def a(self, tm, state_tm, initial_call): self.log.append(("a",tm,state_tm,initial_call))
    @timed_state(duration=2.0)
    def b(self, state_tm, tm, initial_call): self.log.append(("b",tm,state_tm,initial_call))

def path(c):
    ntcore.reset()
    wpilib.ENV=Env(c)
    sm=M(); mt.setup_tunables(sm,"m")
    da=SNum(c.fresh("da",z3.RealSort())); db=SNum(c.fresh("db",z3.RealSort()))
    c.solver.add(da.e>=0, db.e>=0)
    sm.a_duration=da; sm.b_duration=db
    obs=[]
    for i in range(K):
        eng=SBool(c.fresh(f"eng{i}",z3.BoolSort()))
        if eng: sm.engage()
        sm.execute()
    for (n,tm,stm,ic) in sm.log:
        obs.append((f"stm>=0 {n}", lift(stm)>=0))
        obs.append((f"tm>=0 {n}", lift(tm)>=0))
    c.names=[l[0] for l in sm.log]
    return obs

t=time.time()
r=explore(path)
print({k:v for k,v in r.items() if k!="violations"}, "nviol",len(r["violations"]),"wall",round(time.time()-t,2))
for v in r["violations"][:2]:
    print(v[0], v[1]); print(v[2])
