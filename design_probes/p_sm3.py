import sys, time
sys.path[:0]=['/verif/design_probes/stubs','/verif/design_probes','/repo']
import z3
from symex import *
import wpilib, ntcore
import magicbot.state_machine as smm
from magicbot.state_machine import StateMachine, state, timed_state, default_state
import magicbot.magic_tunable as mt
import logging; logging.disable(logging.CRITICAL)

K=int(sys.argv[1]) if len(sys.argv)>1 else 2
WITH_DEFAULT = (sys.argv[2]=="d") if len(sys.argv)>2 else False
class Env:
    fms=False; ds_attached=True; word=(False,False,False)
    def __init__(s,c):
        s.c=c; s.t=SNum(c.fresh("t0",z3.RealSort())); c.solver.add(s.t.e>=0); s.n=0
    def now_s(s):
        s.n+=1; d=s.c.fresh(f"rd{s.n}",z3.RealSort()); s.c.solver.add(d>=0); s.t=s.t+SNum(d); s.c.solver.add(s.t.e<=1000000); return s.t

def choose(c,name,n):
    return c.choose(name,n)

STATES=["a","b","m","p"]
def act(self,name):
    c=Ctx.cur
    self.calls+=1
    if self.depth>=1: return
    k=choose(c,f"act{self.calls}",2+2*len(STATES))
    if k==0: return
    if k==1: self.log.append("user-done"); self.done(); return
    k-=2
    tgt=STATES[k//2]
    if k%2==0: self.next_state(tgt)
    else:
        self.log.append(("nsn",tgt)); self.depth+=1; self.next_state_now(tgt); self.depth-=1

def mk():
    ns={}
    class M(StateMachine):
        def __init__(self): self.log=[]; self.calls=0; self.depth=0
        @state(first=True)
        def a(self, tm, state_tm, initial_call): self.log.append(("a",tm,state_tm,initial_call)); act(self,"a")
        @timed_state(duration=1.0, next_state="m")
        def b(self, state_tm, tm, initial_call): self.log.append(("b",tm,state_tm,initial_call)); act(self,"b")
        @timed_state(duration=1.0, must_finish=True, next_state="p")
        def m(self, initial_call, state_tm, tm): self.log.append(("m",tm,state_tm,initial_call)); act(self,"m")
        @state
        def p(self, tm): self.log.append(("p",tm,None,None)); act(self,"p")
        if WITH_DEFAULT:
            @default_state
            def d(self, initial_call, state_tm): self.log.append(("d",None,state_tm,initial_call))
        def done(self):
            self.log.append("done"); super().done()
    return M

def path(c):
    ntcore.reset()
    wpilib.ENV=Env(c)
    M=mk()
    sm=M(); mt.setup_tunables(sm,"m")
    for i in range(K):
        ext=choose(c,f"ext{i}",6+1)
        sm.log.append(("ext",ext))
        if ext==1: sm.engage()
        elif ext==2: sm.engage(initial_state="b")
        elif ext==3: sm.engage(force=True)
        elif ext==4: sm.done()
        elif ext==5: sm.on_disable()
        elif ext==6: sm.engage(initial_state="m")
        sm.log.append("exec")
        sm.execute()
    return []
t=time.time()
r=explore(path)
print({k:v for k,v in r.items() if k!="violations"}, "wall",round(time.time()-t,2))
