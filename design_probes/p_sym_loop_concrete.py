"""Stub validation probe: SYM-world (concrete, step-synchronous DS script) vs the REAL-world log of p_real_loop.py."""
import sys, json
sys.path[:0]=['/verif/design_probes/stubs','/verif/design_probes','/repo']
import wpilib, ntcore, hal
import magicbot, logging; logging.disable(logging.CRITICAL)
LOG=[]
class C1:
    def setup(self): LOG.append("c1.setup")
    def on_enable(self): LOG.append("c1.on_enable")
    def on_disable(self): LOG.append("c1.on_disable")
    def execute(self): LOG.append("c1.execute")
class R(magicbot.MagicRobot):
    c1:C1
    def createObjects(self): pass
    def teleopInit(self): LOG.append("teleopInit")
    def teleopPeriodic(self): LOG.append(("teleopPeriodic", wpilib.RobotController.getFPGATime()))
    def disabledInit(self): LOG.append("disabledInit")
    def disabledPeriodic(self): LOG.append(("disabledPeriodic", wpilib.RobotController.getFPGATime()))
    def autonomousInit(self): LOG.append("autonomousInit")
    def testInit(self): LOG.append("testInit")
    def testPeriodic(self): LOG.append("testPeriodic")
    def robotPeriodic(self): LOG.append("robotPeriodic")
# script: list of (word, nsteps): word applies from the next time step on
SCRIPT=[((False,False,False),2),((True,False,False),3),((True,True,False),2),((False,False,False),1)]
class Env:
    ds_attached=True; fms=False
    def __init__(s,robot):
        s.t=0; s.robot=robot; s.alarm={}; s.nh=0
        s.steps=[SCRIPT[0][0]]  # iteration at t=0 happens before the first step
        for w,n in SCRIPT: s.steps+= [w]*n
        s.step=0; s.pending=s.steps[0]; s.word=(False,False,False); s.latest=s.steps[0]
    def now_us(s): return s.t
    def now_s(s): return s.t/1e6
    def refresh(s): s.word=s.latest
    def notifier_init(s): s.nh+=1; return (s.nh,0)
    def notifier_stop(s,h): pass
    def notifier_clean(s,h): pass
    def notifier_update(s,h,t): s.alarm[h]=t
    def notifier_wait(s,h):
        # one simulated time step elapses: the driver sets the next word, then steps 20 ms
        s.step+=1
        if s.step>=len(s.steps):
            s.robot[0].endCompetition()
        else:
            s.latest=s.steps[s.step]
        s.t=max(s.t,s.alarm[h]); return s.t
ref=[None]; env=Env(ref); wpilib.ENV=env
r=R(); ref[0]=r
# RobotBase.getControlState reads the live word
wpilib.RobotBase.getControlState=lambda self: env.latest
r.startCompetition()
print(LOG)
