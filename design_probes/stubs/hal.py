import sys, types
import wpilib
class _E:
    def __getattr__(self,n): return types.SimpleNamespace(value=0)
tResourceType=_E(); tInstances=_E()
def report(*a): pass
def observeUserProgramStarting(): pass
def observeUserProgramDisabled(): pass
def observeUserProgramTeleop(): pass
def observeUserProgramAutonomous(): pass
def observeUserProgramTest(): pass
def simPeriodicBefore(): pass
def simPeriodicAfter(): pass
def initializeNotifier(): return wpilib.env().notifier_init()
def stopNotifier(h): wpilib.env().notifier_stop(h)
def cleanNotifier(h): wpilib.env().notifier_clean(h)
def updateNotifierAlarm(h,t): wpilib.env().notifier_update(h,t)
def waitForNotifierAlarm(h): return wpilib.env().notifier_wait(h)
