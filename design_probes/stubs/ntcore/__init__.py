"""Pure python model of the NT4 surface used by /repo (single local instance)."""
class _Store:
    def __init__(self): self.values={}; self.types={}
STORE=_Store()
def reset(): STORE.values.clear(); STORE.types.clear()
class Topic:
    def __init__(self,key): self.key=key
class _Entry:
    def __init__(self,key,default): self.key=key; self.default=default
    def get(self): return STORE.values.get(self.key,self.default)
    def set(self,v): STORE.values[self.key]=v
    def setDefault(self,v): STORE.values.setdefault(self.key,v)
    setValue=set; setBoolean=set; setString=set
class _Pub:
    def __init__(self,key): self.key=key
    def set(self,v): STORE.values[self.key]=v
def _mk(tname):
    class T:
        TYPE=tname
        def __init__(self,topic,*a): self.key=topic.key; STORE.types[self.key]=tname
        def getEntry(self,default): return _Entry(self.key,default)
        def publish(self): return _Pub(self.key)
    T.__name__=tname; return T
BooleanTopic=_mk("boolean"); IntegerTopic=_mk("int"); DoubleTopic=_mk("double"); StringTopic=_mk("string"); RawTopic=_mk("raw")
BooleanArrayTopic=_mk("boolean[]"); IntegerArrayTopic=_mk("int[]"); DoubleArrayTopic=_mk("double[]"); StringArrayTopic=_mk("string[]")
StructTopic=_mk("struct"); StructArrayTopic=_mk("struct[]")
class NetworkTable:
    def __init__(self,path): self.path=path.rstrip("/")
    def _k(self,k): return f"{self.path}/{k}"
    def getEntry(self,k): return _Entry(self._k(k),None)
    def getTopic(self,k): return Topic(self._k(k))
    def putBoolean(self,k,v): STORE.values[self._k(k)]=v
    putNumber=putString=putStringArray=putBoolean
    def getBoolean(self,k,d): return STORE.values.get(self._k(k),d)
    getNumber=getString=getBoolean
class NetworkTableInstance:
    _inst=None
    @classmethod
    def getDefault(cls):
        if cls._inst is None: cls._inst=cls()
        return cls._inst
    def getTable(self,p): return NetworkTable(p if p.startswith("/") else "/"+p)
    def getTopic(self,k): return Topic(k)
