from typing import Union, Sequence
ValueT = Union[bool,int,float,str,bytes,Sequence[bool],Sequence[int],Sequence[float],Sequence[str]]
