"""Pure-python nondeterministic stub of the wpilib surface used by /repo."""
import sys
ENV = None  # set by harness: object providing clock/DS behaviour

class _Env:
    def now_us(self): return 0
    def now_s(self): return 0.0
    fms = False
    ds_attached = True
    word = (False, False, False)  # enabled, auto, test
    def refresh(self): pass
def env(): return sys.modules[__name__].ENV

class RobotBase:
    def __init__(self): pass
    @staticmethod
    def isSimulation(): return True
    def getControlState(self):
        return env().word
class Timer:
    def __init__(self): self._start=None; self._acc=0
    @staticmethod
    def getFPGATimestamp(): return env().now_s()
    def start(self): self._start=env().now_s()
    def reset(self): self._start=env().now_s()
    def get(self): return env().now_s()-self._start
class RobotController:
    @staticmethod
    def getFPGATime(): return env().now_us()
class DriverStation:
    @staticmethod
    def isDSAttached(): return env().ds_attached
    @staticmethod
    def isFMSAttached(): return env().fms
    @staticmethod
    def refreshData(): env().refresh()
    @staticmethod
    def isTeleopEnabled():
        e,a,t=env().word; return e and not a and not t
    @staticmethod
    def isAutonomousEnabled():
        e,a,t=env().word; return e and a
    @staticmethod
    def getBatteryVoltage(): return 12.0
class DSControlWord:
    def __init__(self): self.w=env().word
    def isEnabled(self): return self.w[0]
    def isTest(self): return self.w[2]
    def isDSAttached(self): return env().ds_attached
class SmartDashboard:
    data={}
    @staticmethod
    def updateValues(): pass
    @staticmethod
    def putData(k,v): SmartDashboard.data[k]=v
    @staticmethod
    def putStringArray(k,v): SmartDashboard.data[k]=v
    @staticmethod
    def getString(k,d): return env().sd_strings.get(k,d) if hasattr(env(),"sd_strings") else d
class LiveWindow:
    @staticmethod
    def updateValues(): pass
    @staticmethod
    def setEnabled(b): pass
class SendableChooser:
    def __init__(self): self.opts={}; self.default=None; self.selected=None
    def addOption(self,k,v): self.opts[k]=v
    def setDefaultOption(self,k,v): self.opts[k]=v; self.default=k
    def getSelected(self):
        k=self.selected if self.selected is not None else self.default
        return self.opts.get(k)
def reportError(msg, trace): env().errors.append(msg) if hasattr(env(),"errors") else None
class Watchdog: pass
class Joystick: pass
class AnalogInput:
    def __init__(self,ch): self.ch=ch
class Counter:
    def __init__(self,ch): self.ch=ch
    def setSemiPeriodMode(self,highSemiPeriod): pass
