"""Prototype: dynamic symbolic execution by proxies + z3, DFS by re-execution."""
import z3, time

class Ctx:
    cur = None
    def __init__(self):
        self.solver = z3.Solver()
        self.prefix = []
        self.trace = []
        self.pending = []
        self.nq = 0
        self.tsolve = 0.0
        self.nvars = 0
    def check(self, *assumps):
        t=time.perf_counter(); self.nq+=1
        r = self.solver.check(*assumps)
        self.tsolve += time.perf_counter()-t
        return r
    def branch(self, e):
        e = z3.simplify(e)
        if z3.is_true(e): return True
        if z3.is_false(e): return False
        i = len(self.trace)
        if i < len(self.prefix):
            take = self.prefix[i]
            self.trace.append(take)
            self.solver.add(e if take else z3.Not(e))
            return take
        else:
            can_t = self.check(e) == z3.sat
            can_f = self.check(z3.Not(e)) == z3.sat
            if can_t and can_f:
                take = True
                self.pending.append(self.prefix[:i] and list(self.trace) + [False] or list(self.trace)+[False])
            elif can_t: take = True
            elif can_f: take = False
            else: raise RuntimeError("dead path")
        self.trace.append(take)
        self.solver.add(e if take else z3.Not(e))
        return take
    def choose(self, name, n):
        """free n-way choice: no solver call needed (unconstrained fresh int)."""
        i = len(self.trace)
        if i < len(self.prefix):
            v = self.prefix[i]
        else:
            v = 0
            for alt in range(n-1, 0, -1):
                self.pending.append(list(self.trace)+[alt])
        self.trace.append(v)
        self.choices = getattr(self,"choices",[]) + [(name,v)]
        return v
    def fresh(self, name, sort):
        self.nvars += 1
        return z3.Const(f"{name}", sort)

def ctx(): return Ctx.cur

class SBool:
    __slots__=("e",)
    def __init__(self,e): self.e=e
    def __bool__(self): return ctx().branch(self.e)
    def __invert__(self): return SBool(z3.Not(self.e))
    def __eq__(self,o): return SBool(self.e == lift_b(o))
    def __ne__(self,o): return SBool(self.e != lift_b(o))
    __hash__ = object.__hash__
    def __repr__(self): return f"SBool({self.e})"
def lift_b(o):
    if isinstance(o,SBool): return o.e
    return z3.BoolVal(bool(o))

def lift(o):
    if isinstance(o,SNum): return o.e
    if isinstance(o,bool): o=int(o)
    if isinstance(o,int): return z3.RealVal(o)
    if isinstance(o,float):
        from fractions import Fraction
        f=Fraction(o); return z3.RealVal(f"{f.numerator}/{f.denominator}")
    raise TypeError(type(o))
class SNum:
    __slots__=("e",)
    def __init__(self,e): self.e=e
    def __add__(s,o): return SNum(s.e+lift(o))
    def __radd__(s,o): return SNum(lift(o)+s.e)
    def __sub__(s,o): return SNum(s.e-lift(o))
    def __rsub__(s,o): return SNum(lift(o)-s.e)
    def __mul__(s,o): return SNum(s.e*lift(o))
    __rmul__=__mul__
    def __neg__(s): return SNum(-s.e)
    def __truediv__(s,o):
        d=lift(o)
        if ctx().branch(d==0): raise ZeroDivisionError("float division by zero")
        return SNum(s.e/d)
    def __rtruediv__(s,o):
        if ctx().branch(s.e==0): raise ZeroDivisionError("float division by zero")
        return SNum(lift(o)/s.e)
    def __lt__(s,o): return SBool(s.e<lift(o))
    def __le__(s,o): return SBool(s.e<=lift(o))
    def __gt__(s,o): return SBool(s.e>lift(o))
    def __ge__(s,o): return SBool(s.e>=lift(o))
    def __eq__(s,o): return SBool(s.e==lift(o))
    def __ne__(s,o): return SBool(s.e!=lift(o))
    __hash__=object.__hash__
    def __repr__(s): return f"SNum({s.e})"

def explore(fn, max_paths=10**9):
    """fn(c) runs one path; returns list of (label, z3 bool obligations)."""
    stack=[[]]; npaths=0; viol=[]; nq=0; ts=0.0; nob=0
    while stack and npaths<max_paths:
        p=stack.pop()
        c=Ctx(); c.prefix=p; Ctx.cur=c
        obs=fn(c)
        npaths+=1
        for lab,ob in obs:
            nob+=1
            if c.check(z3.Not(ob))!=z3.unsat:
                viol.append((lab,list(c.trace),c.solver.model()))
        stack.extend(c.pending)
        nq+=c.nq; ts+=c.tsolve
    return dict(paths=npaths, queries=nq, solver_s=ts, obligations=nob, violations=viol)
