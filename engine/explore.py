"""Exhaustive DFS over the path tree of a harness, on all cores.

A harness is a module-level function ``path_fn(c, job)``; ``job`` is a small
picklable description of one concrete *program* (machine shape, robot layout,
...) and ``c`` the per-path context.  The master hands (job, decision-prefix)
work items to forked workers; a worker explores the subtree below the prefix
for at most ``chunk`` paths and returns what is left, so the load balances
itself.
"""
import hashlib
import multiprocessing as mp
import os
import sys
import time
import traceback

from . import symex
from .symex import Ctx, _CtxBase

_PATH_FN = None
_REPO = None
_OPTS = {}


def _profile_functions(path_fn, c, job):
    """Run one path under sys.setprofile and collect the /repo functions that executed."""
    seen = set()
    repo = _REPO

    def prof(frame, event, arg):
        if event == "call":
            co = frame.f_code
            fn = co.co_filename
            if fn.startswith(repo):
                seen.add((os.path.relpath(fn, repo), co.co_qualname, co.co_firstlineno))

    sys.setprofile(prof)
    try:
        path_fn(c, job)
    finally:
        sys.setprofile(None)
    return seen


def run_one(path_fn, job, prefix, profile=False, skip_models=()):
    c = Ctx(prefix)
    _CtxBase.cur = c
    funcs = set()
    err = None
    try:
        if profile:
            funcs = _profile_functions(path_fn, c, job)
        else:
            path_fn(c, job)
    except Exception:
        err = traceback.format_exc()
    viol = []
    if err is None:
        try:
            viol = c.finish(skip_models)
        except Exception:
            err = traceback.format_exc()
    _CtxBase.cur = None
    return c, viol, err, funcs


def _work(item):
    job_idx, job, prefix, chunk, want_profile, seed = item
    path_fn = _PATH_FN
    stack = [prefix]
    st = dict(
        paths=0, queries=0, solver_s=0.0, branches=0, obligations=0, discharged=0,
        undecided=[], nontrivial={}, reached={}, violations=[], errors=[], poisons=[],
        samples=[], funcs=set(), maxdepth=0, viol_counts={}, nontrivial_paths=0,
    )
    first = want_profile
    while stack and st["paths"] < chunk:
        p = stack.pop()
        skip = {l for l, n in st["viol_counts"].items() if n >= 3}
        c, viol, err, funcs = run_one(path_fn, job, p, profile=first, skip_models=skip)
        first = False
        st["funcs"] |= funcs
        st["paths"] += 1
        st["queries"] += c.nq
        st["solver_s"] += c.tsolve
        st["branches"] += c.nbranch
        st["obligations"] += c.nobl
        st["discharged"] += c.ndis
        st["maxdepth"] = max(st["maxdepth"], len(c.trace))
        if c.nontrivial:
            st["nontrivial_paths"] += 1
        for k, v in c.nontrivial.items():
            st["nontrivial"][k] = st["nontrivial"].get(k, 0) + v
        for k, v in c.reached.items():
            st["reached"][k] = st["reached"].get(k, 0) + v
        if c.undecided and len(st["undecided"]) < 20:
            st["undecided"] += [(job_idx, u) for u in c.undecided[:3]]
        if err is not None and len(st["errors"]) < 5:
            st["errors"].append((job_idx, list(c.trace), err))
        if c.poison is not None and len(st["poisons"]) < 5:
            st["poisons"].append((job_idx, list(c.trace), c.poison))
        for v in viol:
            st["viol_counts"][v["label"]] = st["viol_counts"].get(v["label"], 0) + 1
            if v.get("inputs") is not None and sum(1 for w in st["violations"] if w["label"] == v["label"]) < 3:
                v["job_idx"] = job_idx
                st["violations"].append(v)
        # deterministic pseudo-random sampling of passing paths for witnesses
        if not viol and err is None and c.poison is None:
            h = hashlib.sha1(repr((seed, job_idx, c.trace)).encode()).digest()
            if h[0] < _OPTS.get("sample_rate", 2) or st["paths"] <= 2:
                w = None
                try:
                    w = c.witness_inputs()
                except Exception:
                    w = None
                if w is not None and len(st["samples"]) < 4:
                    summ = getattr(c, "summary", None)
                    if callable(summ):
                        summ = summ()
                    summ = symex.concretize_desc(summ)
                    st["samples"].append(dict(job_idx=job_idx, inputs=w, summary=summ))
        stack.extend(c.pending)
    return job_idx, job, stack, st


def explore(path_fn, jobs, *, repo, procs=None, chunk=150, wall_cap=3600, seed=0, max_paths=None, opts=None, stop_after=200, ignore_labels=()):
    """Explore every job exhaustively.  Returns aggregated statistics."""
    global _PATH_FN, _REPO, _OPTS
    _PATH_FN = path_fn
    _REPO = os.path.realpath(repo) + os.sep
    _OPTS = dict(opts or {})
    procs = procs or min(16, os.cpu_count() or 1)
    t0 = time.time()
    agg = dict(
        paths=0, queries=0, solver_s=0.0, branches=0, obligations=0, discharged=0,
        undecided=[], nontrivial={}, reached={}, violations=[], errors=[], poisons=[],
        samples=[], funcs=set(), truncated=False, per_job={}, maxdepth=0, viol_counts={}, nontrivial_paths=0,
    )
    queue = [(i, job, [], True) for i, job in enumerate(jobs)]
    inflight = []

    def merge(job_idx, st):
        for k in ("paths", "queries", "solver_s", "branches", "obligations", "discharged", "nontrivial_paths"):
            agg[k] += st[k]
        agg["maxdepth"] = max(agg["maxdepth"], st["maxdepth"])
        agg["per_job"][job_idx] = agg["per_job"].get(job_idx, 0) + st["paths"]
        for k in ("nontrivial", "reached", "viol_counts"):
            for a, b in st[k].items():
                agg[k][a] = agg[k].get(a, 0) + b
        for k in ("undecided", "errors", "poisons", "samples"):
            if len(agg[k]) < 200:
                agg[k] += st[k]
        for v in st["violations"]:
            if sum(1 for w in agg["violations"] if w["label"] == v["label"] and w["job_idx"] == v["job_idx"]) < 3:
                agg["violations"].append(v)
        agg["funcs"] |= st["funcs"]

    if procs == 1:
        while queue:
            i, job, prefix, prof = queue.pop()
            _, _, left, st = _work((i, job, prefix, chunk, prof, seed))
            merge(i, st)
            queue.extend((i, job, p, False) for p in left)
            if time.time() - t0 > wall_cap or (max_paths and agg["paths"] >= max_paths):
                agg["truncated"] = bool(queue)
                break
    else:
        ctxm = mp.get_context("fork")
        with ctxm.Pool(procs) as pool:
            while queue or inflight:
                while queue and len(inflight) < procs * 3:
                    i, job, prefix, prof = queue.pop()
                    # small chunks while the frontier is narrow so that work spreads quickly
                    ch = chunk if len(queue) + len(inflight) >= procs else max(5, chunk // 10)
                    inflight.append(pool.apply_async(_work, ((i, job, prefix, ch, prof, seed),)))
                done = [r for r in inflight if r.ready()]
                if not done:
                    time.sleep(0.002)
                for r in done:
                    inflight.remove(r)
                    i, job, left, st = r.get()
                    merge(i, st)
                    queue.extend((i, job, p, False) for p in left)
                # known findings and the advisory one-step clauses (never verdicts) do not count towards the early stop
                nviol = sum(n for l, n in agg["viol_counts"].items()
                            if not l.startswith(tuple(ignore_labels) or ("\0",)) and ".step" not in l)
                if time.time() - t0 > wall_cap or (max_paths and agg["paths"] >= max_paths) or \
                        (nviol >= stop_after and time.time() - t0 > 60 and len(agg["violations"]) >= 3):
                    # counterexamples do not need an exhaustive exploration: once enough have been collected and the
                    # run is already long, stop and let the runner replay them
                    agg["truncated"] = bool(queue or inflight)
                    agg["stopped_on_violations"] = nviol >= stop_after
                    pool.terminate()
                    break
    agg["wall_s"] = time.time() - t0
    return agg
