"""Check driver: explore -> replay counterexamples -> known findings -> vacuity guards -> evidence.

Exit codes: 0 held (or only listed known findings), 1 replayed VIOLATION, 2 harness error.
"""
import argparse
import hashlib
import importlib
import json
import os
import subprocess
import sys
import time
import traceback
from fractions import Fraction

VERIF = os.path.dirname(os.path.dirname(os.path.abspath(__file__)))
if VERIF not in sys.path:
    sys.path.insert(0, VERIF)

from engine import world  # noqa: E402


def _jsonable(o):
    if isinstance(o, Fraction):
        return f"{o.numerator}/{o.denominator}" if o.denominator != 1 else o.numerator
    if isinstance(o, dict):
        return {str(k): _jsonable(v) for k, v in o.items()}
    if isinstance(o, (list, tuple, set)):
        return [_jsonable(v) for v in o]
    if isinstance(o, (str, int, float, bool)) or o is None:
        return o
    return repr(o)


class Spec:
    """Base class of a property harness (see harness/cNN.py)."""

    id = None
    title = ""
    design_ref = ""
    real_capable = False  # path_fn also runs against the real wpilib (REAL world)
    outside = []
    stubs = []
    assumptions = []
    clauses = []  # clause label prefixes that must be non-trivially exercised
    chunk = 150

    def jobs(self, tier):
        raise NotImplementedError

    def path_fn(self, c, job):
        raise NotImplementedError

    def bounds(self, tier):
        return {}

    def reach_required(self, tier):
        return []

    def twin(self, tier):
        """(jobs, path_fn) of the falsified twin: must yield at least one counterexample."""
        return None

    def extra(self, tier, seed):
        """Non-path solver obligations. Returns dict(obligations, discharged, violations, queries, solver_s, info)."""
        return None

    def wall_cap(self, tier):
        return 900 if tier == "quick" else 3000

    def trigger(self, viol, job):
        """Facts about a replayed violation used to match known findings."""
        return {}


def load_spec(pid):
    mod = importlib.import_module(f"harness.{pid.lower()}")
    return mod.SPEC


def load_known():
    p = os.path.join(VERIF, "known_findings.json")
    if not os.path.exists(p):
        return []
    with open(p) as f:
        return json.load(f).get("findings", [])


def match_known(known, pid, viol, job, trig):
    for k in known:
        if k["property"] != pid:
            continue
        if not viol["label"].startswith(k["clause"]):
            continue
        facts = dict(job if isinstance(job, dict) else {})
        facts.update(trig or {})
        if all(facts.get(a) == b for a, b in k.get("match", {}).items()):
            return k
    return None


def concrete_run(spec, job, inputs, numeric=float):
    from engine import symex

    c = symex.ConcreteCtx(inputs, numeric=numeric)
    symex._CtxBase.cur = c
    err = None
    try:
        spec.path_fn(c, job)
    except Exception:
        err = traceback.format_exc()
    symex._CtxBase.cur = None
    failed = [l for l, _ in c.failed]
    summ = getattr(c, "summary", None)
    if callable(summ):
        try:
            summ = summ()
        except Exception:
            summ = "summary failed: " + traceback.format_exc()[-300:]
    return dict(failed=failed, error=err, summary=_jsonable(summ),
                assume_failed=bool(c.assume_failed), poison=c.poison)


def real_batch(pid, items, timeout=600):
    """Run (job, inputs) items in a REAL-world subprocess; returns list of result dicts."""
    import tempfile

    d = tempfile.mkdtemp(prefix="verif_real_")
    try:
        fin = os.path.join(d, "in.json")
        fout = os.path.join(d, "out.json")
        with open(fin, "w") as f:
            json.dump(_jsonable(items), f)
        env = dict(os.environ)
        env["PYTHONDONTWRITEBYTECODE"] = "1"
        r = subprocess.run([sys.executable, "-m", "engine.runner", pid, "--real-batch", fin, fout],
                           cwd=VERIF, env=env, capture_output=True, text=True, timeout=timeout)
        if r.returncode != 0 or not os.path.exists(fout):
            raise RuntimeError(f"REAL-world subprocess failed rc={r.returncode}\n{r.stdout[-2000:]}\n{r.stderr[-4000:]}")
        with open(fout) as f:
            return json.load(f)
    finally:
        import shutil

        shutil.rmtree(d, ignore_errors=True)


def _real_batch_main(pid, fin, fout):
    world.enter("real")
    spec = load_spec(pid)
    with open(fin) as f:
        items = json.load(f)
    out = []
    for it in items:
        out.append(concrete_run(spec, it["job"], it["inputs"], float))
    with open(fout, "w") as f:
        json.dump(out, f)
    # real wpilib/ntcore may keep threads alive
    sys.stdout.flush()
    os._exit(0)


def functions_report(funcs):
    out = []
    cache = {}
    for rel, qual, line in sorted(funcs):
        p = os.path.join(world.REPO, rel)
        if p not in cache:
            try:
                with open(p, "rb") as f:
                    cache[p] = hashlib.sha1(f.read()).hexdigest()[:12]
            except OSError:
                cache[p] = "?"
        out.append(f"{rel}:{line} {qual} [file sha1 {cache[p]}]")
    return out


def run_check(pid, tier, seed):
    from engine import explore

    t0 = time.time()
    world.enter("sym")
    spec = load_spec(pid)
    jobs = spec.jobs(tier)
    problems = []  # harness errors
    out_lines = []

    known = load_known()
    agg = explore.explore(spec.path_fn, jobs, repo=world.REPO, chunk=spec.chunk, wall_cap=spec.wall_cap(tier),
                          seed=seed, opts=dict(sample_rate=4),
                          ignore_labels=[k["clause"] for k in known if k["property"] == pid])
    if agg["truncated"]:
        problems.append(f"exploration truncated after {agg['wall_s']:.0f}s ({agg['paths']} paths)")
    for j, tr, e in agg["errors"][:3]:
        problems.append(f"exception escaped the harness on job {j} decisions {tr}: {e[-1500:]}")
    for j, tr, pz in agg["poisons"][:3]:
        problems.append(f"poisoned path on job {j} decisions {tr}: {pz}")

    extra = None
    try:
        extra = spec.extra(tier, seed)
    except Exception:
        problems.append("extra obligations crashed: " + traceback.format_exc()[-1500:])
    viols = list(agg["violations"])
    if extra:
        agg["obligations"] += extra.get("obligations", 0)
        agg["discharged"] += extra.get("discharged", 0)
        agg["queries"] += extra.get("queries", 0)
        agg["solver_s"] += extra.get("solver_s", 0.0)
        for u in extra.get("undecided", []):
            agg["undecided"].append(("extra", u))
        for p in extra.get("problems", []):
            problems.append(p)
        for v in extra.get("violations", []):
            viols.append(v)

    # ---- replay counterexamples --------------------------------------------------
    known = load_known()
    confirmed = []
    known_hit = {}
    seen = set()
    nonrepro = []
    for v in viols:
        key = (v["label"], v.get("job_idx"))
        if key in seen and len([1 for x in confirmed if x["label"] == v["label"]]) >= 2:
            continue
        seen.add(key)
        if v.get("confirmed_by"):  # extra obligations that carry their own concrete replay
            rr = dict(failed=[v["label"]], summary=v.get("summary"))
            job = v.get("job", {})
        else:
            job = jobs[v["job_idx"]]
            rr = concrete_run(spec, job, v["inputs"], float)
            if v["label"] not in rr["failed"]:
                rq = concrete_run(spec, job, v["inputs"], Fraction)
                nonrepro.append(dict(label=v["label"], job=job, inputs=_jsonable(v["inputs"]),
                                     float_failed=rr["failed"], exact_failed=rq["failed"], error=rr["error"] or rq["error"]))
                continue
        v = dict(v)
        v["job"] = job
        v["replay"] = rr
        confirmed.append(v)
    if nonrepro:
        problems.append(f"{len(nonrepro)} solver counterexample(s) did not reproduce concretely "
                        f"(encoding or stub wrong): {json.dumps(_jsonable(nonrepro[:2]))[:3000]}")

    # REAL-world replay where the harness can run against the real wpilib
    real_checked = 0
    if confirmed and spec.real_capable:
        items = [dict(job=v["job"], inputs=v["inputs"]) for v in confirmed if "inputs" in v][:20]
        if items:
            try:
                res = real_batch(pid, items)
                k = 0
                for v in confirmed:
                    if "inputs" not in v or k >= len(res):
                        continue
                    v["real"] = res[k]
                    k += 1
                    real_checked += 1
                    if v["label"] not in v["real"]["failed"]:
                        problems.append(f"counterexample for {v['label']} reproduces with stubs but not with the real wpilib: "
                                        f"{json.dumps(v['real'])[:1500]}")
            except Exception as e:
                problems.append(f"REAL-world replay failed: {e}")

    # Layer B (one inductive step from a symbolic pre-state) is advisory: its counterexamples may start in
    # unreachable states, so they are never verdicts (DESIGN.md §6)
    layer_b = [v for v in confirmed if ".step" in v["label"]]
    confirmed = [v for v in confirmed if ".step" not in v["label"]]
    for v in layer_b[:3]:
        problems.append(f"UNCONFIRMED-CEX (one-step induction, pre-state may be unreachable) clause {v['label']} "
                        f"inputs={json.dumps(_jsonable(v.get('inputs')))[:600]}")
    violations_out = []
    rdir = os.path.join(os.environ.get("VERIF_OUT_DIR", VERIF), "replays", pid)
    for v in confirmed:
        trig = spec.trigger(v, v["job"])
        k = match_known(known, pid, v, v["job"], trig)
        if k is not None:
            known_hit.setdefault(k["id"], k)
            continue
        os.makedirs(rdir, exist_ok=True)
        n = len(violations_out) + 1
        path = os.path.join(rdir, f"{tier}-{n}.json")
        with open(path, "w") as f:
            json.dump(_jsonable(dict(property=pid, label=v["label"], info=v.get("info"), job=v["job"],
                                     inputs=v.get("inputs"), trigger=trig, replay=v.get("replay"), real=v.get("real"))), f, indent=1)
        violations_out.append((v, path))

    # ---- vacuity guards ------------------------------------------------------------
    for lab in spec.reach_required(tier):
        if not agg["reached"].get(lab):
            problems.append(f"vacuity: reach label '{lab}' never reached")
    for cl in spec.clauses:
        if not any(k.startswith(cl) and n > 0 for k, n in agg["nontrivial"].items()):
            problems.append(f"vacuity: clause '{cl}' never had a satisfiable antecedent")
    twin_info = None
    tw = spec.twin(tier)
    if tw is not None:
        tjobs, tfn = tw
        tagg = explore.explore(tfn, tjobs, repo=world.REPO, chunk=50, wall_cap=300, seed=seed, max_paths=4000)
        twin_info = dict(paths=tagg["paths"], violations=len(tagg["violations"]))
        if not tagg["violations"]:
            problems.append("falsified twin produced no counterexample (the executor cannot fail)")

    # ---- stub validation: witness traces SYM(concrete) vs REAL ---------------------
    validated = 0
    samples_out = []
    for s in agg["samples"][:12]:
        job = jobs[s["job_idx"]]
        samples_out.append(dict(job=job, inputs=_jsonable(s["inputs"]), summary=_jsonable(s["summary"])))
    if spec.real_capable and agg["samples"]:
        nval = 6 if tier == "quick" else 24
        items = [dict(job=jobs[s["job_idx"]], inputs=s["inputs"]) for s in agg["samples"][:nval]]
        try:
            res = real_batch(pid, items)
            for it, r in zip(items, res):
                symr = concrete_run(spec, it["job"], it["inputs"], float)
                if r["error"] or symr["error"]:
                    problems.append(f"stub validation: witness run crashed: {(r['error'] or symr['error'])[-800:]}")
                elif r["summary"] != symr["summary"] or r["failed"] != symr["failed"]:
                    problems.append("stub validation: SYM and REAL traces differ on a witness input: "
                                    + json.dumps(dict(job=it["job"], inputs=_jsonable(it["inputs"]), sym=symr["summary"], real=r["summary"]))[:3000])
                else:
                    validated += 1
        except Exception as e:
            problems.append(f"stub validation failed to run: {e}")
    if extra and extra.get("validated"):
        validated += extra["validated"]
    if extra and extra.get("samples"):
        samples_out += extra["samples"]
    if not samples_out:
        samples_out.append(dict(note="no passing path sampled", paths=agg["paths"]))

    wall = time.time() - t0
    nontrivial_total = sum(agg["nontrivial"].values())
    ev = dict(
        property_id=pid, tier=tier, seed=seed, level="model_checking",
        coverage=dict(
            states=max(agg["paths"], 1) if (agg["paths"] or not extra) else max(extra.get("obligations", 1), 1),
            transitions=max(agg["branches"] + agg["queries"], 1),
            traces_validated_against_impl=validated,
            samples=samples_out[:8],
            evaluations=agg["paths"] + (extra.get("obligations", 0) if extra else 0),
            distinct_nontrivial=agg["nontrivial_paths"] + (extra.get("discharged", 0) if extra else 0),
            nontrivial_clause_instances=nontrivial_total,
            rule=("every path of the symbolic executor is a distinct decision sequence (free choices + solver-decided "
                  "branches); distinct_nontrivial counts the paths on which at least one clause had an antecedent "
                  "satisfiable under the path condition (plus separately discharged non-path obligations)"),
            exhaustive=not agg["truncated"],
            paths=agg["paths"], paths_per_job=agg["per_job"], solver_branch_points=agg["branches"],
            queries=agg["queries"], solver_s=round(agg["solver_s"], 3),
            obligations=agg["obligations"], discharged=agg["discharged"],
            undecided=_jsonable(agg["undecided"][:10]), n_undecided=len(agg["undecided"]),
            clause_nontrivial=agg["nontrivial"], reached=agg["reached"],
            functions_encoded=functions_report(agg["funcs"]) + (extra.get("functions", []) if extra else []),
            bounds=spec.bounds(tier), outside_bounds=spec.outside, stubs=spec.stubs,
            jobs=_jsonable(jobs)[:40], falsified_twin=twin_info, extra=_jsonable(extra.get("info")) if extra else None,
            real_world_replays=real_checked,
            known_findings_observed=sorted(known_hit), harness_problems=problems[:10],
            engine="symex (proxy-based symbolic execution of /repo code objects) + z3 " + _z3v(),
            repo=world.REPO,
        ),
        assumptions=list(spec.assumptions) + list(spec.stubs),
        wall_s=round(wall, 2),
        violations=len(violations_out),
    )
    evdir = os.path.join(os.environ.get("VERIF_OUT_DIR", VERIF), "evidence")
    os.makedirs(evdir, exist_ok=True)
    with open(os.path.join(evdir, f"{pid}.json"), "w") as f:
        json.dump(_jsonable(ev), f, indent=1)

    print(f"[{pid} {tier}] paths={agg['paths']} branches={agg['branches']} queries={agg['queries']} "
          f"solver={agg['solver_s']:.1f}s obligations={agg['obligations']} discharged={agg['discharged']} "
          f"undecided={len(agg['undecided'])} validated={validated} wall={wall:.1f}s")
    if agg["undecided"]:
        print(f"  undecided (solver unknown, not claimed): {_jsonable(agg['undecided'][:6])}")
    if agg["viol_counts"]:
        print(f"  solver counterexamples by clause (before replay): {agg['viol_counts']}")
    for k in known_hit.values():
        print(f"KNOWN-FINDING: property={pid} {k['what']}")
    for v, path in violations_out:
        print(f"  violated clause: {v['label']} job={json.dumps(_jsonable(v['job']))[:200]} info={v.get('info')}")
        print(f"VIOLATION property={pid} replay={path}")
    if violations_out:
        return 1
    if problems:
        for p in problems:
            print(f"HARNESS-ERROR property={pid}: {p}")
        return 2
    return 0


def _z3v():
    import z3

    return z3.get_version_string()


def replay_file(pid, path):
    world.enter("sym")
    spec = load_spec(pid)
    with open(path) as f:
        r = json.load(f)
    if r.get("inputs") is None:
        print(json.dumps(r, indent=1)[:4000])
        return 0
    res = concrete_run(spec, r["job"], r["inputs"], float)
    print(json.dumps(res, indent=1)[:6000])
    if r["label"] in res["failed"]:
        print(f"VIOLATION property={pid} replay={path}")
        return 1
    return 0


def main(argv=None):
    ap = argparse.ArgumentParser()
    ap.add_argument("pid")
    ap.add_argument("--tier", default=os.environ.get("VERIF_TIER", "quick"))
    ap.add_argument("--replay")
    ap.add_argument("--real-batch", nargs=2)
    a = ap.parse_args(argv)
    if a.real_batch:
        _real_batch_main(a.pid, *a.real_batch)
        return 0
    if a.replay:
        return replay_file(a.pid, a.replay)
    seed = int(os.environ.get("VERIF_SEED", "0") or 0)
    import shutil
    import tempfile

    # scratch space of this run (generated packages); workers create their directories inside it
    tmp = tempfile.mkdtemp(prefix="verif_run_")
    os.environ["VERIF_TMP"] = tmp
    try:
        return run_check(a.pid, a.tier, seed)
    except Exception:
        traceback.print_exc()
        print(f"HARNESS-ERROR property={a.pid}: check crashed")
        return 2
    finally:
        shutil.rmtree(tmp, ignore_errors=True)


if __name__ == "__main__":
    sys.exit(main())
