"""symex -- dynamic symbolic execution of the real /repo code by proxy values + z3.

One *path* = one ordinary execution of a harness function in which some values
are proxies (SBool / SNum / SBV).  Proxies build z3 terms; ``bool(proxy)`` asks
the solver which sides are feasible under the current path condition, takes
one and queues the other (depth-first search by deterministic re-execution).
Finite free choices (``choose``) fork without a solver call.

The same harness code also runs in *concrete* mode (``ConcreteCtx``): inputs
come from a dictionary (a solver model), proxies never appear, ``prove`` just
evaluates.  That is how counterexamples are replayed against the real code.

Nothing here raises inside code under test to steer exploration (the library
under test uses bare ``except:``).  Unmodellable operations set a sticky
poison flag on the path.
"""
import time
from fractions import Fraction

import z3

HORIZON = 10 ** 6  # seconds; see DESIGN.md §4 (untimed states "expire" after 0xFFFFFFFF s)


class HarnessError(Exception):
    """The harness / engine cannot decide (never a verdict)."""


# --------------------------------------------------------------------------
# contexts
# --------------------------------------------------------------------------


class _CtxBase:
    cur = None  # the active context (symbolic or concrete)
    symbolic = False

    def __init__(self):
        self.events = []  # harness-owned trace
        self.reached = {}  # reach label -> count
        self.poison = None
        self.failed = []  # concrete mode: failed clause labels
        self.assume_failed = []
        self.nobl = 0
        self.ndis = 0
        self.nontrivial = {}  # clause label -> #paths with satisfiable antecedent

    def reach(self, label):
        self.reached[label] = self.reached.get(label, 0) + 1

    def set_poison(self, why):
        if self.poison is None:
            self.poison = str(why)


class Ctx(_CtxBase):
    """Symbolic context for one path."""

    symbolic = True

    def __init__(self, prefix=(), timeout_ms=20000):
        super().__init__()
        self.solver = z3.Solver()
        self.solver.set("timeout", timeout_ms)
        self.prefix = list(prefix)
        self.trace = []  # decisions taken (bool for branches, int for choices)
        self.pending = []  # alternative decision prefixes discovered on this path
        self.nq = 0
        self.tsolve = 0.0
        self.nbranch = 0  # solver-decided branch points (both sides examined)
        self.inputs = []  # (name, z3 const, kind)
        self.choices = []  # (name, n, value)
        self.obls = []  # (label, z3 expr, info)
        self.undecided = []
        self.names = set()

    # -- solver ----------------------------------------------------------
    def check(self, *assumps):
        t = time.perf_counter()
        self.nq += 1
        r = self.solver.check(*assumps)
        self.tsolve += time.perf_counter() - t
        return r

    def add(self, *es):
        self.solver.add(*es)

    def fresh_name(self, name):
        if name in self.names:
            i = 2
            while f"{name}#{i}" in self.names:
                i += 1
            name = f"{name}#{i}"
        self.names.add(name)
        return name

    # -- forking ---------------------------------------------------------
    def branch(self, e):
        e = z3.simplify(e)
        if z3.is_true(e):
            return True
        if z3.is_false(e):
            return False
        i = len(self.trace)
        if i < len(self.prefix):
            take = bool(self.prefix[i])
        else:
            self.nbranch += 1
            r_t = self.check(e)
            r_f = self.check(z3.Not(e))
            can_t = r_t == z3.sat
            can_f = r_f == z3.sat
            if r_t == z3.unknown or r_f == z3.unknown:
                # treat unknown as feasible (explore), remember that the path set is
                # an over-approximation; obligations on it are still checked.
                self.undecided.append(("branch", str(e)[:120]))
                can_t = can_t or r_t == z3.unknown
                can_f = can_f or r_f == z3.unknown
            if can_t and can_f:
                take = True
                self.pending.append(list(self.trace) + [False])
            elif can_t:
                take = True
            elif can_f:
                take = False
            else:
                # infeasible path condition: can only happen after an unknown; poison
                self.set_poison("dead path (inconsistent path condition)")
                take = True
        self.trace.append(take)
        self.solver.add(e if take else z3.Not(e))
        return take

    def choose(self, name, n):
        """Free n-way choice (enumerated, no solver call)."""
        if n <= 1:
            return 0
        i = len(self.trace)
        if i < len(self.prefix):
            v = int(self.prefix[i])
        else:
            v = 0
            for alt in range(n - 1, 0, -1):
                self.pending.append(list(self.trace) + [alt])
        self.trace.append(v)
        self.choices.append((self.fresh_name(name), n, v))
        return v

    # -- inputs ----------------------------------------------------------
    def real(self, name, lo=None, hi=None):
        name = self.fresh_name(name)
        c = z3.Real(name)
        self.inputs.append((name, c, "real"))
        if lo is not None:
            self.solver.add(c >= lift(lo))
        if hi is not None:
            self.solver.add(c <= lift(hi))
        return SNum(c)

    def integer(self, name, lo=None, hi=None):
        name = self.fresh_name(name)
        c = z3.Int(name)
        self.inputs.append((name, c, "int"))
        if lo is not None:
            self.solver.add(c >= lo)
        if hi is not None:
            self.solver.add(c <= hi)
        return SNum(z3.ToReal(c), is_int=True)

    def boolean(self, name):
        name = self.fresh_name(name)
        c = z3.Bool(name)
        self.inputs.append((name, c, "bool"))
        return SBool(c)

    def bitvec(self, name, width):
        name = self.fresh_name(name)
        c = z3.BitVec(name, width)
        self.inputs.append((name, c, "bv"))
        return SBV(c)

    def assume(self, cond):
        if isinstance(cond, SBool):
            self.solver.add(cond.e)
        elif not cond:
            self.set_poison("assume(False) on a concrete condition")

    # -- obligations -----------------------------------------------------
    def prove(self, label, cond, when=True, info=None):
        """Obligation: on this path, ``when => cond`` for every value of the inputs."""
        w = lift_b(when)
        c = lift_b(cond)
        w = z3.simplify(w)
        if z3.is_false(w):
            return
        self.obls.append((label, z3.Implies(w, c) if not z3.is_true(w) else c, w, info))

    def finish(self, skip_models=()):
        """Discharge the collected obligations. Returns list of violation dicts (labels in
        ``skip_models`` are reported without a model: enough of them have been collected)."""
        viol = []
        modelled = {}
        if not self.obls:
            return viol
        self.nobl += len(self.obls)
        # nontrivial: antecedent satisfiable under the path condition
        for label, e, w, info in self.obls:
            if z3.is_true(w) or self.check(w) == z3.sat:
                self.nontrivial[label] = self.nontrivial.get(label, 0) + 1
        conj = z3.simplify(z3.And([e for _, e, _, _ in self.obls]))
        if z3.is_true(conj):
            self.ndis += len(self.obls)
            return viol
        r = self.check(z3.Not(conj))
        if r == z3.unsat:
            self.ndis += len(self.obls)
            return viol
        # find the individual failing obligations
        for label, e, w, info in self.obls:
            e = z3.simplify(e)
            if z3.is_true(e):
                self.ndis += 1
                continue
            r = self.check(z3.Not(e))
            if r == z3.unsat:
                self.ndis += 1
            elif r == z3.unknown:
                self.undecided.append((label, self.solver.reason_unknown()))
            elif label in skip_models or modelled.get(label, 0) >= 1:
                viol.append(dict(label=label, info=None, inputs=None))
            else:
                modelled[label] = 1
                viol.append(
                    dict(label=label, info=_info_plain(info), inputs=self._model_inputs(z3.Not(e)), decisions=list(self.trace))
                )
        return viol

    def _model_inputs(self, negated):
        """Concrete inputs from a model of pc ∧ ¬clause; prefers small dyadic rationals."""
        self.solver.push()
        self.solver.add(negated)
        model = None
        reals = [c for _, c, k in self.inputs if k == "real"]
        if reals:
            self.solver.push()
            for j, c in enumerate(reals):
                k = z3.Int(f"__dy{j}")
                self.solver.add(c * 64 == z3.ToReal(k))
            self.solver.set("timeout", 5000)
            if self.check() == z3.sat:
                model = self.solver.model()
            self.solver.pop()
            self.solver.set("timeout", 20000)
        if model is None:
            if self.check() != z3.sat:
                self.solver.pop()
                raise HarnessError("model vanished")
            model = self.solver.model()
        out = {}
        for name, c, kind in self.inputs:
            v = model.eval(c, model_completion=True)
            out[name] = _pyval(v, kind)
        for name, n, v in self.choices:
            out[name] = v
        self.solver.pop()
        return out

    def witness_inputs(self):
        """Inputs of some concrete run following this path (for stub validation / samples)."""
        if self.check() != z3.sat:
            return None
        self.solver.push()
        reals = [c for _, c, k in self.inputs if k == "real"]
        for j, c in enumerate(reals):
            k = z3.Int(f"__dy{j}")
            self.solver.add(c * 64 == z3.ToReal(k))
        self.solver.set("timeout", 3000)
        r = self.check()
        if r != z3.sat:
            self.solver.pop()
            self.solver.push()
            r = self.check()
        self.solver.set("timeout", 20000)
        if r != z3.sat:
            self.solver.pop()
            return None
        model = self.solver.model()
        out = {}
        for name, c, kind in self.inputs:
            out[name] = _pyval(model.eval(c, model_completion=True), kind)
        for name, n, v in self.choices:
            out[name] = v
        self.solver.pop()
        return out


def _info_plain(info):
    if isinstance(info, dict):
        return {k: _info_plain(v) for k, v in info.items()}
    if isinstance(info, (list, tuple)):
        return [_info_plain(v) for v in info]
    if isinstance(info, (SBool, SNum, SBV)):
        return str(z3.simplify(info.e))
    if isinstance(info, (str, int, float, bool)) or info is None:
        return info
    return repr(info)


def _pyval(v, kind):
    if kind == "bool":
        return bool(z3.is_true(v))
    if kind == "int":
        return v.as_long()
    if kind == "bv":
        return v.as_long()
    if z3.is_algebraic_value(v):
        v = v.approx(30)
    return Fraction(v.numerator_as_long(), v.denominator_as_long())


class ConcreteCtx(_CtxBase):
    """Concrete replay: inputs from a dict; ``numeric`` converts rationals (float / Fraction)."""

    symbolic = False

    def __init__(self, inputs, numeric=float):
        super().__init__()
        self.inputs_in = dict(inputs)
        self.numeric = numeric
        self.used = {}
        self.names = set()

    fresh_name = Ctx.fresh_name

    def _get(self, name, default):
        name = self.fresh_name(name)
        v = self.inputs_in.get(name, default)
        self.used[name] = v
        return v

    def choose(self, name, n):
        if n <= 1:
            return 0
        return int(self._get(name, 0))

    def real(self, name, lo=None, hi=None):
        d = lo if lo is not None else 0
        v = self._get(name, d)
        if isinstance(v, str):
            v = Fraction(v)
        return self.numeric(v)

    def integer(self, name, lo=None, hi=None):
        return int(self._get(name, lo if lo is not None else 0))

    def boolean(self, name):
        return bool(self._get(name, False))

    def bitvec(self, name, width):
        return int(self._get(name, 0))

    def assume(self, cond):
        if not cond:
            self.assume_failed.append("assume")

    def branch(self, e):
        """A proxy built from concrete values (ground term) reached a bool(): evaluate it."""
        e = z3.simplify(e)
        if z3.is_true(e):
            return True
        if z3.is_false(e):
            return False
        raise HarnessError(f"non-ground term in concrete mode: {e}")

    def add(self, *es):
        pass

    def prove(self, label, cond, when=True, info=None):
        if not when:
            return
        self.nobl += 1
        self.nontrivial[label] = self.nontrivial.get(label, 0) + 1
        if cond:
            self.ndis += 1
        else:
            self.failed.append((label, info))

    def finish(self):
        return [dict(label=l, info=i) for l, i in self.failed]


def ctx():
    return _CtxBase.cur


# --------------------------------------------------------------------------
# proxies
# --------------------------------------------------------------------------


def lift_b(o):
    if isinstance(o, SBool):
        return o.e
    if isinstance(o, (SNum, SBV)):
        return o._truth()
    return z3.BoolVal(bool(o))


def lift(o):
    """Python number / SNum -> z3 Real term. Floats become the exact rational of the double."""
    if isinstance(o, SNum):
        return o.e
    if isinstance(o, SBool):
        return z3.If(o.e, z3.RealVal(1), z3.RealVal(0))
    if isinstance(o, bool):
        o = int(o)
    if isinstance(o, int):
        return z3.RealVal(o)
    if isinstance(o, float):
        if o != o or o in (float("inf"), float("-inf")):
            raise TypeError("non-finite float in symbolic arithmetic")
        f = Fraction(o)
        return z3.RealVal(f"{f.numerator}/{f.denominator}")
    if isinstance(o, Fraction):
        return z3.RealVal(f"{o.numerator}/{o.denominator}")
    raise TypeError(f"cannot lift {type(o).__name__}")


class SBool:
    __slots__ = ("e",)

    def __init__(self, e):
        self.e = e

    def __bool__(self):
        return ctx().branch(self.e)

    def __invert__(self):
        return SBool(z3.Not(self.e))

    def __and__(self, o):
        return SBool(z3.And(self.e, lift_b(o)))

    __rand__ = __and__

    def __or__(self, o):
        return SBool(z3.Or(self.e, lift_b(o)))

    __ror__ = __or__

    def __xor__(self, o):
        return SBool(z3.Xor(self.e, lift_b(o)))

    __rxor__ = __xor__

    def __eq__(self, o):
        if isinstance(o, (SBool, bool)):
            return SBool(self.e == lift_b(o))
        return False

    def __ne__(self, o):
        if isinstance(o, (SBool, bool)):
            return SBool(self.e != lift_b(o))
        return True

    __hash__ = object.__hash__

    def __repr__(self):
        return f"SBool({self.e})"

    def __format__(self, spec):
        return "<symbool>"


class SNum:
    """Real-valued proxy (floats, seconds, volts); ``is_int`` marks integer-valued terms."""

    __slots__ = ("e", "is_int")

    def __init__(self, e, is_int=False):
        self.e = e
        self.is_int = is_int

    def _truth(self):
        return self.e != 0

    def __bool__(self):
        return ctx().branch(self.e != 0)

    def _ii(s, o):
        return s.is_int and (isinstance(o, int) or (isinstance(o, SNum) and o.is_int))

    def __add__(s, o):
        return SNum(s.e + lift(o), s._ii(o))

    def __radd__(s, o):
        return SNum(lift(o) + s.e, s._ii(o))

    def __sub__(s, o):
        return SNum(s.e - lift(o), s._ii(o))

    def __rsub__(s, o):
        return SNum(lift(o) - s.e, s._ii(o))

    def __mul__(s, o):
        return SNum(s.e * lift(o), s._ii(o))

    __rmul__ = __mul__

    def __neg__(s):
        return SNum(-s.e, s.is_int)

    def __pos__(s):
        return s

    def __abs__(s):
        return SNum(z3.If(s.e >= 0, s.e, -s.e), s.is_int)

    def __truediv__(s, o):
        d = lift(o)
        if ctx().branch(d == 0):
            raise ZeroDivisionError("float division by zero")
        return SNum(s.e / d)

    def __rtruediv__(s, o):
        if ctx().branch(s.e == 0):
            raise ZeroDivisionError("float division by zero")
        return SNum(lift(o) / s.e)

    def __floordiv__(s, o):
        d = lift(o)
        if ctx().branch(d == 0):
            raise ZeroDivisionError("integer division or modulo by zero")
        return SNum(z3.ToReal(z3.ToInt(s.e / d)), True)

    def __mod__(s, o):
        # Python's %: s - o*floor(s/o) (the sign follows the divisor), on integers and on reals
        d = lift(o)
        if ctx().branch(d == 0):
            raise ZeroDivisionError("integer division or modulo by zero")
        return SNum(s.e - d * z3.ToReal(z3.ToInt(s.e / d)), s._ii(o))

    def __rmod__(s, o):
        if ctx().branch(s.e == 0):
            raise ZeroDivisionError("integer division or modulo by zero")
        n = lift(o)
        return SNum(n - s.e * z3.ToReal(z3.ToInt(n / s.e)), s._ii(o))

    def __and__(s, o):
        # integer & (2**k - 1) == integer mod 2**k (also for negative integers); other masks are not modelled
        if s.is_int and isinstance(o, int) and not isinstance(o, bool) and o >= 0 and (o & (o + 1)) == 0:
            return s % (o + 1)
        ctx().set_poison("bitwise & on a symbolic integer with a mask that is not 2**k-1 (unmodelled)")
        raise TypeError("unmodelled bitwise operation on a symbolic integer")

    __rand__ = __and__

    def __lt__(s, o):
        return SBool(s.e < lift(o))

    def __le__(s, o):
        return SBool(s.e <= lift(o))

    def __gt__(s, o):
        return SBool(s.e > lift(o))

    def __ge__(s, o):
        return SBool(s.e >= lift(o))

    def __eq__(s, o):
        try:
            return SBool(s.e == lift(o))
        except TypeError:
            return False

    def __ne__(s, o):
        try:
            return SBool(s.e != lift(o))
        except TypeError:
            return True

    __hash__ = object.__hash__

    def __repr__(s):
        return f"SNum({s.e})"

    def __format__(self, spec):
        return "<sym>"

    def __round__(self, ndigits=None):
        """Python's round(): round-half-to-even to an integer (or to ndigits decimals)."""
        scale = 1 if ndigits is None else 10 ** ndigits
        x = self.e * scale
        f = z3.ToInt(x)
        d = x - z3.ToReal(f)
        r = z3.If(d < z3.RealVal("1/2"), f, z3.If(d > z3.RealVal("1/2"), f + 1, z3.If(f % 2 == 0, f, f + 1)))
        if ndigits is None:
            return SNum(z3.ToReal(r), True)
        return SNum(z3.ToReal(r) / scale)

    def __float__(self):
        ctx().set_poison("float(SNum) outside a shadowed module")
        raise TypeError("float() of a symbolic value (unmodelled)")

    def __int__(self):
        ctx().set_poison("int(SNum) outside a shadowed module")
        raise TypeError("int() of a symbolic value (unmodelled)")

    __index__ = __int__


def sym_int(x):
    """Shadow for the builtin ``int`` inside a module under test: truncation toward zero."""
    if isinstance(x, SNum):
        if x.is_int:
            return x
        fl = z3.ToInt(x.e)
        ce = -z3.ToInt(-x.e)
        return SNum(z3.ToReal(z3.If(x.e >= 0, fl, ce)), True)
    return int(x)


def sym_float(x):
    if isinstance(x, SNum):
        return SNum(x.e, False)
    return float(x)


class _IntShadowMeta(type):
    def __instancecheck__(cls, x):
        return isinstance(x, int) or (isinstance(x, SNum) and x.is_int)

    def __call__(cls, x=0, *a):
        return int(x, *a) if a else sym_int(x)


class IntShadow(metaclass=_IntShadowMeta):
    """Stands in for the name ``int`` inside a module under test: conversion truncates terms, isinstance() works."""


class _FloatShadowMeta(type):
    def __instancecheck__(cls, x):
        return isinstance(x, float) or (isinstance(x, SNum) and not x.is_int)

    def __call__(cls, x=0.0):
        return sym_float(x)


class FloatShadow(metaclass=_FloatShadowMeta):
    """Stands in for the name ``float`` inside a module under test."""


def install_shadows():
    """Shadow the module-level names int / float of the /repo modules that convert clock or period values, so
    that proxies pass through them (no source edit; idempotent)."""
    import importlib

    for name in ("robotpy_ext.control.toggle", "robotpy_ext.control.button_debouncer", "robotpy_ext.misc.simple_watchdog",
                 "robotpy_ext.misc.precise_delay", "robotpy_ext.misc.periodic_filter", "robotpy_ext.autonomous.stateful_autonomous",
                 "robotpy_ext.autonomous.selector", "magicbot.state_machine", "magicbot.magicrobot"):
        try:
            m = importlib.import_module(name)
        except Exception:
            continue
        m.int = IntShadow
        m.float = FloatShadow


class SBV:
    __slots__ = ("e",)

    def __init__(self, e):
        self.e = e

    def _w(self):
        return self.e.size()

    def _l(self, o):
        if isinstance(o, SBV):
            return o.e
        return z3.BitVecVal(int(o), self._w())

    def _truth(self):
        return self.e != 0

    def __bool__(self):
        return ctx().branch(self.e != 0)

    def __xor__(s, o):
        return SBV(s.e ^ s._l(o))

    __rxor__ = __xor__

    def __and__(s, o):
        return SBV(s.e & s._l(o))

    __rand__ = __and__

    def __or__(s, o):
        return SBV(s.e | s._l(o))

    __ror__ = __or__

    def __lshift__(s, o):
        return SBV(s.e << s._l(o))

    def __rshift__(s, o):
        return SBV(z3.LShR(s.e, s._l(o)))

    def __add__(s, o):
        return SBV(s.e + s._l(o))

    __radd__ = __add__

    def __sub__(s, o):
        return SBV(s.e - s._l(o))

    def __rsub__(s, o):
        return SBV(s._l(o) - s.e)

    def __mul__(s, o):
        return SBV(s.e * s._l(o))

    __rmul__ = __mul__

    def __mod__(s, o):
        d = s._l(o)
        if ctx().branch(d == 0):
            raise ZeroDivisionError("integer modulo by zero")
        return SBV(z3.URem(s.e, d))

    def __floordiv__(s, o):
        d = s._l(o)
        if ctx().branch(d == 0):
            raise ZeroDivisionError("integer division or modulo by zero")
        return SBV(z3.UDiv(s.e, d))

    def __invert__(s):
        return SBV(~s.e)

    def __rlshift__(s, o):
        return SBV(s._l(o) << s.e)

    def __rrshift__(s, o):
        return SBV(z3.LShR(s._l(o), s.e))

    def __eq__(s, o):
        return SBool(s.e == s._l(o))

    def __ne__(s, o):
        return SBool(s.e != s._l(o))

    def __lt__(s, o):
        return SBool(z3.ULT(s.e, s._l(o)))

    def __le__(s, o):
        return SBool(z3.ULE(s.e, s._l(o)))

    def __gt__(s, o):
        return SBool(z3.UGT(s.e, s._l(o)))

    def __ge__(s, o):
        return SBool(z3.UGE(s.e, s._l(o)))

    __hash__ = object.__hash__

    def __index__(self):
        ctx().set_poison("SBV used as a list index outside a SymTable")
        raise TypeError("symbolic index (unmodelled)")

    def __repr__(s):
        return f"SBV({s.e})"


class SymTable:
    """Read-only table indexed by an SBV: a z3 function symbol with the *real* contents asserted as
    ground facts on the path's solver (EUF+BV; far faster here than ITE chains or Array/Store)."""

    def __init__(self, values, width=8, name="tbl"):
        self.values = [int(v) for v in values]
        self.width = width
        self.name = name
        self._f = {}
        self._asserted = None

    def __len__(self):
        return len(self.values)

    def fn(self, iw):
        if iw not in self._f:
            self._f[iw] = z3.Function(f"{self.name}_{iw}", z3.BitVecSort(iw), z3.BitVecSort(self.width))
        return self._f[iw]

    def term(self, idx):
        iw = idx.size()
        f = self.fn(iw)
        c = ctx()
        if self._asserted is not c:
            self._asserted = c
            c.add(*[f(z3.BitVecVal(i, iw)) == z3.BitVecVal(v, self.width) for i, v in enumerate(self.values)])
        return f(idx)

    def __getitem__(self, i):
        if isinstance(i, SBV):
            # Python would raise IndexError for i >= len; fork on that
            if len(self.values) < (1 << i._w()):
                if ctx().branch(z3.UGE(i.e, z3.BitVecVal(len(self.values), i._w()))):
                    raise IndexError("list index out of range")
            return SBV(self.term(i.e))
        return self.values[i]

    def __iter__(self):
        return iter(self.values)


# --------------------------------------------------------------------------
# mode-agnostic helpers for harness clauses
# --------------------------------------------------------------------------


def s_and(*xs):
    if any(isinstance(x, (SBool, SNum, SBV)) for x in xs):
        return SBool(z3.And([lift_b(x) for x in xs]))
    return all(xs)


def s_or(*xs):
    if any(isinstance(x, (SBool, SNum, SBV)) for x in xs):
        return SBool(z3.Or([lift_b(x) for x in xs]))
    return any(xs)


def s_not(x):
    if isinstance(x, (SBool, SNum, SBV)):
        return SBool(z3.Not(lift_b(x)))
    return not x


def s_implies(a, b):
    return s_or(s_not(a), b)


def s_ite(c, a, b):
    if isinstance(c, SBool):
        if isinstance(a, (SBool, bool)) and isinstance(b, (SBool, bool)):
            return SBool(z3.If(c.e, lift_b(a), lift_b(b)))
        return SNum(z3.If(c.e, lift(a), lift(b)))
    return a if c else b


def s_eq(a, b):
    """Equality usable on proxies and plain values (never forks)."""
    if isinstance(a, (SNum, SBool, SBV)):
        return a == b
    if isinstance(b, (SNum, SBool, SBV)):
        return b == a
    return a == b


def s_close(a, b, rel=1e-9):
    """|a-b| <= rel*(1+|b|): the tolerance policy of DESIGN.md §2 for 'reports exactly X'."""
    if isinstance(a, SNum) or isinstance(b, SNum):
        ea, eb = lift(a), lift(b)
        tol = lift(rel) * (1 + z3.If(eb >= 0, eb, -eb))
        return SBool(z3.And(ea - eb <= tol, eb - ea <= tol))
    return abs(a - b) <= rel * (1 + abs(b))


def s_div(a, b):
    """Division for use in *clauses* (never forks or raises): z3's total division on terms."""
    if isinstance(a, SNum) or isinstance(b, SNum):
        return SNum(lift(a) / lift(b))
    return a / b if b != 0 else 0.0


def s_close_rel(a, b, rel=1e-9):
    """|a-b| <= rel*|b| : purely relative tolerance (no absolute floor), for linear scalings of any magnitude."""
    if isinstance(a, SNum) or isinstance(b, SNum):
        ea, eb = lift(a), lift(b)
        tol = lift(rel) * z3.If(eb >= 0, eb, -eb)
        return SBool(z3.And(ea - eb <= tol, eb - ea <= tol))
    return abs(a - b) <= rel * abs(b)


def is_sym(x):
    return isinstance(x, (SBool, SNum, SBV))


def concretize_desc(x):
    """Printable form of a trace value (for evidence samples)."""
    if isinstance(x, (SBool, SNum, SBV)):
        return str(z3.simplify(x.e))
    if isinstance(x, Fraction):
        return float(x)
    if isinstance(x, (list, tuple)):
        return [concretize_desc(y) for y in x]
    if isinstance(x, dict):
        return {k: concretize_desc(v) for k, v in x.items()}
    return x
