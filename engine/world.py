"""SYM / REAL world bootstrap (DESIGN.md §3).

SYM : sys.path = [/verif/stubs, <repo>, ...]  -> wpilib/hal/ntcore are the stubs, the library is the
      real working tree.
REAL: sys.path = [<repo>, ...]                -> the real compiled wpilib/hal/ntcore (simulation).
The repo path is $VERIF_REPO (default /repo) so that self-evaluation can point at scratch copies.
"""
import logging
import os
import sys

VERIF = os.path.dirname(os.path.dirname(os.path.abspath(__file__)))
REPO = os.path.realpath(os.environ.get("VERIF_REPO", "/repo"))
WORLD = None

_LIB_PREFIXES = ("magicbot", "robotpy_ext", "wpilib", "hal", "ntcore")


def _purge():
    for k in list(sys.modules):
        if k.split(".")[0] in _LIB_PREFIXES:
            del sys.modules[k]


def enter(world):
    """Select the world for this process (once)."""
    global WORLD
    if WORLD == world:
        return
    if WORLD is not None:
        raise RuntimeError("world already selected for this process")
    WORLD = world
    stubs = os.path.join(VERIF, "stubs")
    sys.path[:] = [p for p in sys.path if os.path.realpath(p or ".") not in (REPO, stubs, "/repo")]
    if world == "sym":
        sys.path[:0] = [stubs, REPO]
    elif world == "real":
        sys.path[:0] = [REPO]
    else:
        raise ValueError(world)
    if VERIF not in sys.path:
        sys.path.append(VERIF)
    _purge()
    logging.disable(logging.CRITICAL)
    sys.dont_write_bytecode = True
    if world == "sym":
        import wpilib

        assert wpilib.__file__.startswith(stubs), wpilib.__file__
    import magicbot  # noqa: F401

    assert os.path.realpath(magicbot.__file__).startswith(REPO), magicbot.__file__


def is_sym():
    return WORLD == "sym"
