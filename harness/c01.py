from harness.sm_specs import C01

SPEC = C01()
