from harness.sm_specs import C02

SPEC = C02()
