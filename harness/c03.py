"""C03: state functions get correct tm / state_tm / initial_call in any parameter order.

(a) signature programs: all 16 ordered subsets of (tm, state_tm, initial_call) x {state, timed_state,
    default_state}, generated from text and decorated by the real decorators;
(b) the history space of C01 (+ timed shapes): initial_call / tm / state_tm values through every kind of
    entry (engage, next_state, next_state_now, expiry, restart, default fallback).
"""
import itertools

from engine import symex as sx
from engine import world
from engine.symex import s_eq, s_not
from harness import sm_clauses as cl
from harness import sm_common as smc
from harness.sm_specs import SMSpec, mkjob

PARAMS = ("tm", "state_tm", "initial_call")
SUBSETS = [p for n in range(4) for p in itertools.permutations(PARAMS, n)]
assert len(SUBSETS) == 16


class SigRec:
    def __init__(self):
        self.calls = []
        self.clock = None

    def call(self, name, **kw):
        self.calls.append((name, kw, self.clock.t))


def build_sig_class(deco, params, H):
    import magicbot.state_machine as smm

    ns = dict(state=smm.state, timed_state=smm.timed_state, default_state=smm.default_state, Base=smm.StateMachine, H=H)
    plist = ", ".join(("self",) + tuple(params))
    if H.posonly and params:
        # positional-only markers are legal: the decorators reject only *args, **kwargs and keyword-only parameters
        k = H.posonly if H.posonly <= len(params) else len(params)
        parts = ["self"] + list(params)
        plist = ", ".join(parts[:k + 1] + ["/"] + parts[k + 1:])
    if H.defaults and params:
        # parameters may carry default values of their own (never used: the machine always supplies the value)
        dv = dict(tm="-5.0", state_tm="-7.0", initial_call="None")
        k = len(params) - min(H.defaults, len(params))
        plist = ", ".join(["self"] + list(params[:k]) + [f"{p}={dv[p]}" for p in params[k:]])
    kw = ", ".join(f"{p}={p}" for p in params)
    src = "class M(Base):\n"
    if deco == "state":
        src += "    @state(first=True)\n"
    elif deco == "timed":
        src += "    @timed_state(first=True, duration=1.0)\n"
    else:
        src += "    @state(first=True)\n    def a(self):\n        H.call('a')\n    @default_state\n"
    src += f"    def x({plist}):\n        H.call('x', {kw})\n"
    if H.raise_first:
        src += "        if len([1 for n, _, _ in H.calls if n == 'x']) == 1:\n            raise RuntimeError('the first call of the state function fails')\n"
    exec(compile(src, f"<sig {deco} {params}>", "exec"), ns)
    return ns["M"]


def sig_path(c, job):
    import magicbot.magic_tunable as mt

    deco, params = job["deco"], tuple(job["params"])
    clock = smc.Clock(c)
    smc.install_env(c, clock)
    H = SigRec()
    H.clock = clock
    H.posonly = job.get("posonly", 0)
    H.defaults = job.get("defaults", 0)
    H.raise_first = bool(job.get("raise_first"))
    M = build_sig_class(deco, params, H)
    sm = M()
    smc._NTID[0] += 1
    mt.setup_tunables(sm, f"sig{smc._NTID[0]}" if not world.is_sym() else "sig")
    d = None
    if deco == "timed":
        d = c.real("dur_x", 0, 100)
        sm.x_duration = d
    nows = []
    K = 3
    for i in range(K):
        if deco != "default":
            sm.engage()
        n = len(clock.reads)
        try:
            sm.execute()
        except Exception as e:
            if H.raise_first and i == 0 and "first call of the state function fails" in repr(e):
                # the caller (the robot framework under the FMS) swallows it and keeps iterating
                c.reach("sig-first-call-raised")
                nows.append(clock.reads[n])
                continue
            c.prove("C03.sig state-function-callable-with-its-own-signature", False,
                    info=dict(deco=deco, params=list(params), posonly=H.posonly, defaults=H.defaults, exc=repr(e)[:120]))
            return
        nows.append(clock.reads[n])
    got = [kw for name, kw, t in H.calls if name == "x"]
    c.summary = dict(deco=deco, params=list(params), calls=[[n, {k: v for k, v in kw.items()}] for n, kw, _ in H.calls])
    c.prove("C03.sig one-call-per-iteration", len(got) == K and len(H.calls) == K, info=dict(calls=len(H.calls)))
    if len(got) != K:
        return
    # reference values, from the statement
    origin, s = nows[0], 0
    exp = [dict(tm=0, state_tm=0, initial_call=True)]
    for i in range(1, K):
        tm = nows[i] - origin
        if deco == "timed" and (tm > s + d):
            c.reach("sig-restart")
            origin = origin + s + d
            tm = nows[i] - origin
            s = 0
            exp.append(dict(tm=tm, state_tm=tm, initial_call=True))
        else:
            exp.append(dict(tm=tm, state_tm=tm - s, initial_call=False))
    for i in range(K):
        for p in params:
            if deco == "default" and p == "tm":
                continue  # tm is unspecified for a default state outside an engagement
            c.reach("sig-param-" + p)
            c.prove(f"C03.sig {p}", s_eq(got[i][p], exp[i][p]),
                    info=dict(deco=deco, params=list(params), defaults=H.defaults, iteration=i, got=got[i][p]))
        c.prove("C03.sig only-declared", set(got[i]) == set(params))


class C03(SMSpec):
    id = "C03"
    clauses = ["C03.sig tm", "C03.sig state_tm", "C03.sig initial_call", "C03.ic", "C03.tm-origin",
               "C03.state_tm-from-entry", "C03.4", "C03.mono default", "C03.5"]
    outside = [
        "IEEE rounding of the clock arithmetic (reals are used)",
        "tm of a default state running outside an engagement (unspecified by the statement)",
        "initial_call of a default state re-entered after an external done() while it was already running (ambiguous)",
        "histories longer than K iterations",
    ]

    def jobs(self, tier):
        sig = [dict(kind="sig", deco=d, params=list(p)) for d in ("state", "timed", "default") for p in SUBSETS]
        sig += [dict(kind="sig", deco=d, params=list(p), posonly=k) for d in ("state", "timed", "default")
                for p in SUBSETS if len(p) >= 2 for k in (1, len(p))]
        sig += [dict(kind="sig", deco=d, params=["initial_call", "state_tm", "tm"], raise_first=True) for d in ("state", "timed", "default")]
        sig += [dict(kind="sig", deco=d, params=list(p), defaults=k) for d in ("state", "timed", "default")
                for p in SUBSETS if len(p) >= 1 for k in sorted({1, len(p)})]
        if tier == "quick":
            hist = ([mkjob(s, 3, 2) for s in ("S1", "S3", "S4", "S5")] + [mkjob("S1", 3, 0, ext_per_iter=2, variant=1)] + [mkjob(s, 5, 0, ext=False) for s in ("S2", "S6")]
                    + [mkjob("S8", 4, 1, variant=1)] + [self.twinjob("S1", 3, 0, variant=2), self.twinjob("S2", 4, 0, variant=1)]
                    + [mkjob("S6", 5, 0, ext=False, rewrite=True, variant=3), mkjob("S2", 4, 0, ext=False, rewrite=True, variant=2)])
        else:
            hist = ([mkjob(s, 4, 2, variant=1) for s in ("S1", "S3", "S4", "S5")]
                    + [mkjob(s, 2, 3, ext_per_iter=2, nsn_depth=2, variant=2) for s in ("S1", "S4")]
                    + [self.twinjob("S1", 4, 0, variant=2), self.twinjob("S2", 5, 0, variant=1), mkjob("S6", 6, 0, ext=False, rewrite=True, variant=3)]
                    + [mkjob(s, 8, 1, ext=False, variant=3) for s in ("S2", "S6", "S7")] + [mkjob("S8", 4, 2, variant=4)])
        for j in hist:
            j["kind"] = "hist"
        return sig + hist

    def bounds(self, tier):
        js = [j for j in self.jobs(tier) if j["kind"] == "hist"]
        return dict(signature_programs="16 ordered parameter subsets x {state, timed_state, default_state} (plain, with positional-only markers, with default values), 3 iterations each, symbolic clock and duration",
                    history=[dict(shape=j["shape"], **j["cfg"]) for j in js])

    def reach_required(self, tier):
        return ["sig-restart", "sig-param-tm", "sig-param-state_tm", "sig-param-initial_call", "engagement-start",
                "requested-state-runs", "untimed-continues", "timed-expired", "restart", "nested-call",
                "default-consecutive", "default-fallback", "forced-engage", "forced-engage-into-running-state", "sig-first-call-raised"]

    def path_fn(self, c, job):
        if job["kind"] == "sig":
            return sig_path(c, job)
        H = smc.run_history(c, job)
        cl.timing_clauses(c, H, "C03")
        cl.clauses_c03_default(c, H)
        cl.clauses_forced_engage(c, H, "C03")

    def twin(self, tier):
        def tfn(c, job):
            H = smc.run_history(c, job)
            for it in H.iters:
                for x in it.calls:
                    c.prove("twin", s_not(x.ic))

        return [mkjob("S1", 2, 0)], tfn


SPEC = C03()
