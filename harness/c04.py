from harness.sm_specs import C04

SPEC = C04()
