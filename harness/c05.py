from harness.loop_specs import C05

SPEC = C05()
