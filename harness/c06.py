from harness.loop_specs import C06

SPEC = C06()
