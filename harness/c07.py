from harness.loop_specs import C07

SPEC = C07()
