"""C08: variable injection delivers exactly the named robot object or fails at startup.

(a) the real get_injection_requests / find_injections on every combination of presence flags (symbolic
    booleans decided through the solver) and value kinds;
(b) the real MagicRobot.robotInit() / _create_components on generated robots: attribute injection, constructor
    injection, both declaration orders of mutually referring components, inherited annotations, autonomous modes.
"""
from engine import symex as sx
from engine.runner import Spec
from harness import loop_common as lcm


class Dep:
    pass


class SubDep(Dep):
    pass


class Other:
    pass


class CallableDep(Dep):
    """A robot object that happens to be callable (lookup table, filter, ...)."""

    def __call__(self, x):
        return x


KINDS = ["instance", "subclass", "wrong", "none", "zero", "empty"]


def mkval(kind):
    return {"instance": Dep(), "subclass": SubDep(), "wrong": Other(), "none": None, "zero": 0, "empty": ""}[kind]


def path_unit(c, job):
    import magicbot.inject as inj

    import typing

    ann_t = {"Dep": Dep, "int": int, "str": str, "list[int]": list[int], "Optional[Dep]": typing.Optional[Dep],
             "Union[int,float]": typing.Union[int, float], "ClassVar[int]": typing.ClassVar[int]}[job["ann"]]
    if job["ann"] in ("Optional[Dep]", "Union[int,float]", "ClassVar[int]"):
        # only the "already has a value -> untouched" clause is stated for annotations that are not classes
        class Comp0:
            pass

        comp0 = Comp0()
        marker0 = object()
        setattr(comp0, "dep", marker0)
        try:
            req = inj.get_injection_requests({"dep": ann_t, "_p": ann_t}, "c1", comp0)
            ok = req == {} and comp0.dep is marker0
        except Exception as e:
            ok = False
        c.reach("preset-non-class-annotation")
        c.prove("C08.unit private-or-preset-untouched", ok, info=dict(ann=job["ann"]))
        return
    check_t = list if job["ann"] == "list[int]" else ann_t
    private = job["private"]
    n = "_dep" if private else "dep"
    has_plain = bool(c.boolean("robot_has_n"))
    has_pref = bool(c.boolean("robot_has_cname_n"))
    preset = bool(c.boolean("component_already_has_n"))
    ka = KINDS[c.choose("kind_plain", len(KINDS))] if has_plain else None
    kb = KINDS[c.choose("kind_prefixed", len(KINDS))] if has_pref else None
    if job["ann"] == "list[int]":
        conv = lambda k: [1, 2] if k == "instance" else mkval(k)
    else:
        conv = mkval
    injectables = {"unrelated": Other()}
    if has_plain:
        injectables[n] = conv(ka)
    if has_pref:
        injectables[f"c1_{n}"] = conv(kb)

    class Comp:
        pass

    comp = Comp()
    marker = object()
    if preset:
        setattr(comp, n, marker)
    hints = {n: ann_t}
    c.summary = dict(job=job, has_plain=has_plain, has_pref=has_pref, preset=preset, ka=ka, kb=kb)
    try:
        req = inj.get_injection_requests(hints, "c1", comp)
        got = inj.find_injections(req, injectables, "c1")
        out = ("ok", got)
    except inj.MagicInjectError as e:
        out = ("inject-error", None)
    except TypeError:
        out = ("type-error", None)
    except Exception as e:
        out = ("other:" + repr(e)[:60], None)
    # expectation from the statement
    if private or preset:
        c.reach("untouched")
        c.prove("C08.unit private-or-preset-untouched", out[0] == "ok" and out[1] == {}, info=dict(out=out[0]))
        return
    cand = None
    if has_plain and injectables[n] is not None:
        cand = injectables[n]
    elif has_pref and injectables[f"c1_{n}"] is not None:
        cand = injectables[f"c1_{n}"]
        c.reach("prefixed-lookup")
    if cand is None:
        c.reach("absent")
        c.prove("C08.unit absent-is-an-injection-error", out[0] == "inject-error", info=dict(out=out[0]))
    elif not isinstance(cand, check_t):
        c.reach("mistyped")
        c.prove("C08.unit mistyped-is-an-injection-error", out[0] == "inject-error", info=dict(out=out[0], ka=ka, kb=kb))
    else:
        c.reach("delivered")
        if ka in ("zero", "empty") or kb in ("zero", "empty"):
            c.reach("falsy-delivered")
        c.prove("C08.unit delivers-the-very-object", out[0] == "ok" and list(out[1]) == [n] and out[1][n] is cand, info=dict(out=out[0], ka=ka, kb=kb))


def path_ctor(c, job):
    """get_injection_requests for constructor parameters: private parameter names are an error."""
    import magicbot.inject as inj

    try:
        inj.get_injection_requests({"_x": Dep}, "c1")
        ok = False
    except inj.MagicInjectError:
        ok = True
    c.reach("ctor-private")
    c.prove("C08.unit ctor-private-param-is-an-injection-error", ok)
    for bad in ("notatype", 3):
        try:
            inj.get_injection_requests({"x": bad}, "c1", object())
            ok = False
        except TypeError:
            ok = True
        c.prove("C08.unit non-type-annotation-is-a-type-error", ok, info=dict(hint=repr(bad)))


RELS = ["class-attr", "createObjects", "prefixed-only", "both", "absent", "wrong-type", "subclass", "none-then-prefixed", "none-only",
        "callable-object"]


def path_robot(c, job):
    import magicbot
    import ntcore
    import wpilib
    from magicbot import MagicRobot

    class E:
        ds_attached = True

        def fms_attached(self):
            return False

        def now_us(self):
            return 0

        def now_s(self):
            return 0.0

        def sd_get_string(self, k, d):
            return d

    wpilib.ENV = E()
    ntcore.reset()
    wpilib.SmartDashboard.data.clear()
    rel = RELS[c.choose("rel", len(RELS))]
    order = c.choose("order", 2)  # declaration order of the two mutually referring components
    ctor = c.choose("ctor", 3)  # 0: no ctor injection, 1: c2 takes dep + earlier component, 2: ctor wants a missing name
    inherit = c.choose("inherit", 2)
    auto = job.get("auto", False)
    lcm.set_auto_pkg(False)
    log = []
    PRESET = Dep()
    robot_dep, pref_dep = Dep(), Dep()
    if rel == "subclass":
        robot_dep = SubDep()
    if rel == "wrong-type":
        robot_dep = Other()
    if rel == "callable-object":
        robot_dep = CallableDep()

    class CompA:
        dep: Dep
        count: int
        c2: "CompB"
        _priv: Dep
        preset: Dep = PRESET
        initset: Dep

        def __init__(self):
            self.initset = PRESET

        def setup(self):
            log.append(("setup", "c1", getattr(self, "dep", "<missing>"), getattr(self, "c2", "<missing>"),
                        getattr(getattr(self, "c2", None), "c1", "<missing>")))

        def execute(self):
            pass

    class CompA2(CompA):
        extra: Other

    class CompB:
        c1: CompA

        def __init__(self, **kw):
            self.kw = kw

        def setup(self):
            log.append(("setup", "c2", getattr(self, "c1", "<missing>"), None, getattr(getattr(self, "c1", None), "dep", "<missing>")))

        def execute(self):
            pass

    if ctor == 1:
        if order == 0:
            def init(self, dep: Dep, c1: CompA):
                self.kw = dict(dep=dep, c1=c1)
        else:
            def init(self, dep: Dep):
                self.kw = dict(dep=dep)
        CompB.__init__ = init
    elif ctor == 2:
        def init(self, nosuch: Dep):
            self.kw = dict(nosuch=nosuch)
        CompB.__init__ = init
    CompA.__annotations__["c2"] = CompB
    A = CompA2 if inherit else CompA
    ann = {"c1": A, "c2": CompB} if order == 0 else {"c2": CompB, "c1": A}
    body = {"__annotations__": ann}
    extra_obj = Other()
    if rel in ("class-attr", "both", "subclass", "wrong-type", "callable-object"):
        body["dep"] = robot_dep
    if rel in ("none-then-prefixed", "none-only"):
        body["dep"] = None

    def createObjects(self):
        if rel == "createObjects":
            self.dep = robot_dep
        if rel in ("prefixed-only", "both", "none-then-prefixed"):
            self.c1_dep = pref_dep
        self.count = 0
        self.extra = extra_obj

    body["createObjects"] = createObjects
    if c.choose("robot_inheritance", 2):
        # the robot class itself is inherited: class-level objects and createObjects live on the parent class
        c.reach("inherited-robot")
        parent_body = {k: v for k, v in body.items() if k != "__annotations__"}
        Parent = type("ParentRobot", (MagicRobot,), parent_body)
        Robot = type("Robot", (Parent,), {"__annotations__": body["__annotations__"]})
    else:
        Robot = type("Robot", (MagicRobot,), body)
    r = Robot()
    try:
        r.robotInit()
        out = "ok"
    except magicbot.magicrobot.MagicInjectError:
        out = "inject-error"
    except magicbot.inject.MagicInjectError:
        out = "inject-error"
    except TypeError as e:
        out = "type-error"
    except Exception as e:
        out = "other:" + repr(e)[:100]
    c.summary = dict(rel=rel, order=order, ctor=ctor, inherit=inherit, out=out)
    dep_ok = rel not in ("absent", "wrong-type", "none-only")
    # with ctor injection c2 needs 'dep' too (plain name or c2_dep); prefixed-only / none-then-prefixed only provide c1_dep
    ctor_ok = ctor == 0 or (ctor == 1 and rel in ("class-attr", "createObjects", "both", "subclass", "callable-object"))
    if not (dep_ok and ctor_ok):
        c.reach("startup-fails")
        c.prove("C08.robot missing-or-mistyped-dependency-fails-at-startup", out == "inject-error", info=dict(rel=rel, ctor=ctor, out=out))
        c.prove("C08.robot no-setup-before-failure", not log, info=dict(log=len(log)))
        return
    c.reach("startup-ok")
    c.prove("C08.robot startup-succeeds", out == "ok", info=dict(rel=rel, ctor=ctor, order=order, out=out))
    if out != "ok":
        return
    want = pref_dep if rel in ("prefixed-only", "none-then-prefixed") else robot_dep
    c1, c2 = r.c1, r.c2
    c.prove("C08.robot attribute-is-the-robot-object", c1.dep is want, info=dict(rel=rel))
    c.prove("C08.robot falsy-value-delivered", c1.count == 0 and type(c1.count) is int)
    c.prove("C08.robot components-injected-regardless-of-order", c1.c2 is c2 and c2.c1 is c1, info=dict(order=order))
    c.prove("C08.robot preset-and-init-values-untouched", c1.preset is PRESET and c1.initset is PRESET)
    c.prove("C08.robot private-annotation-untouched", not hasattr(c1, "_priv"))
    if inherit:
        c.reach("inherited-annotations")
        c.prove("C08.robot inherited-annotations-injected", c1.extra is extra_obj and c1.dep is want)
    if ctor == 1:
        c.reach("ctor-injection")
        c.prove("C08.robot ctor-parameters-injected", c2.kw["dep"] is want and (order == 1 or c2.kw["c1"] is c1), info=dict(order=order))
    # every setup() ran after all injection
    s1 = [e for e in log if e[1] == "c1"]
    s2 = [e for e in log if e[1] == "c2"]
    c.prove("C08.robot injected-before-any-setup", len(s1) == 1 and len(s2) == 1 and s1[0][2] is want and s1[0][3] is c2 and s2[0][2] is c1
            and s1[0][4] is c1 and s2[0][4] is want,  # ... including what is reached through other components
            info=dict(nsetup=len(log)))


def path_more(c, job):
    """Subclass narrowing an inherited annotation; constructor parameters that carry defaults."""
    import magicbot
    import ntcore
    import wpilib
    from magicbot import MagicRobot

    class E:
        ds_attached = True

        def fms_attached(self):
            return False

        def now_us(self):
            return 0

        def now_s(self):
            return 0.0

        def sd_get_string(self, k, d):
            return d

    wpilib.ENV = E()
    ntcore.reset()
    wpilib.SmartDashboard.data.clear()
    lcm.set_auto_pkg(False)
    what = job["what"]
    if what == "narrowed":
        # base: motor: Dep ; subclass: motor: SubDep ; the robot object satisfies the base type only / the subclass type
        holds_sub = bool(c.boolean("robot_holds_subclass_instance"))
        obj = SubDep() if holds_sub else Dep()

        class BaseComp:
            motor: Dep

            def execute(self):
                pass

        class Comp(BaseComp):
            motor: SubDep

        def createObjects(self):
            self.motor = obj

        r = type("Robot", (MagicRobot,), {"__annotations__": {"c1": Comp}, "createObjects": createObjects})()
        try:
            r.robotInit()
            out = "ok"
        except (magicbot.inject.MagicInjectError, magicbot.magicrobot.MagicInjectError):
            out = "inject-error"
        except Exception as e:
            out = "other:" + repr(e)[:80]
        c.reach("narrowed-annotation")
        c.prove("C08.robot re-annotated-attribute-checked-against-most-derived-type", out == ("ok" if holds_sub else "inject-error"),
                info=dict(holds_sub=holds_sub, out=out))
        if out == "ok":
            c.prove("C08.robot attribute-is-the-robot-object", r.c1.motor is obj)
    elif what == "automode":
        # autonomous mode objects are injected like components (the selector itself is C14's subject: a stand-in
        # that only holds the mode objects is put in its place)
        import magicbot.magicrobot as mm

        where = ["plain", "absent", "mistyped", "component"][c.choose("where", 4)]
        dep = Dep()

        class Arm:
            def execute(self):
                pass

        class Mode:
            MODE_NAME = "X"
            if where == "component":
                arm: Arm
            else:
                dep: Dep

            def on_enable(self):
                pass

            def on_iteration(self, tm):
                pass

            def on_disable(self):
                pass

        mode, other = Mode(), Mode()

        class Sel:
            def __init__(self, *a, **k):
                self.modes = {"X": mode, "Y": other}

            def endCompetition(self):
                pass

        def createObjects(self):
            if where == "plain":
                self.dep = dep
            elif where == "mistyped":
                self.dep = object()

        real_sel = mm.AutonomousModeSelector
        mm.AutonomousModeSelector = Sel
        try:
            r = type("Robot", (MagicRobot,), {"__annotations__": {"arm": Arm}, "createObjects": createObjects})()
            try:
                r.robotInit()
                out = "ok"
            except (magicbot.inject.MagicInjectError, magicbot.magicrobot.MagicInjectError):
                out = "inject-error"
            except Exception as e:
                out = "other:" + repr(e)[:80]
        finally:
            mm.AutonomousModeSelector = real_sel
        c.reach("automode")
        if where in ("absent", "mistyped"):
            c.prove("C08.robot missing-or-mistyped-dependency-fails-at-startup", out == "inject-error", info=dict(where=where, out=out, owner="autonomous mode"))
        elif where == "plain":
            c.prove("C08.robot attribute-is-the-robot-object", out == "ok" and getattr(mode, "dep", None) is dep and getattr(other, "dep", None) is dep,
                    info=dict(where=where, out=out, owner="autonomous mode"))
        else:
            c.prove("C08.robot attribute-is-the-robot-object", out == "ok" and getattr(mode, "arm", None) is r.arm, info=dict(where=where, out=out, owner="autonomous mode"))
    elif what == "inherited-only":
        # the concrete component class declares nothing itself: every annotation comes from its base class
        where = ["plain", "prefixed", "absent", "mistyped"][c.choose("where", 4)]
        dep = Dep()

        class BaseComp:
            motor: Dep

            def execute(self):
                pass

        class Comp(BaseComp):
            pass

        def createObjects(self):
            if where == "plain":
                self.motor = dep
            elif where == "prefixed":
                self.c1_motor = dep
            elif where == "mistyped":
                self.motor = object()

        r = type("Robot", (MagicRobot,), {"__annotations__": {"c1": Comp}, "createObjects": createObjects})()
        try:
            r.robotInit()
            out = "ok"
        except (magicbot.inject.MagicInjectError, magicbot.magicrobot.MagicInjectError):
            out = "inject-error"
        except Exception as e:
            out = "other:" + repr(e)[:80]
        c.reach("inherited-only")
        if where in ("absent", "mistyped"):
            c.prove("C08.robot missing-or-mistyped-dependency-fails-at-startup", out == "inject-error", info=dict(where=where, out=out, inherited_only=True))
        else:
            c.prove("C08.robot attribute-is-the-robot-object", out == "ok" and getattr(r.c1, "motor", None) is dep, info=dict(where=where, out=out, inherited_only=True))
    elif what == "inherited-ctor":
        # the annotated constructor is inherited from a base component class; parameters with and without defaults
        where = ["plain", "prefixed", "absent"][c.choose("where", 3)]
        dflt = bool(c.choose("param_has_default", 2))
        enc = Dep()
        if dflt:
            class BaseArm:
                def __init__(self, encoder: Dep = None):
                    self.encoder = encoder

                def execute(self):
                    pass
        else:
            class BaseArm:
                def __init__(self, encoder: Dep):
                    self.encoder = encoder

                def execute(self):
                    pass

        class Arm(BaseArm):
            limit = 3

        def createObjects(self):
            if where == "plain":
                self.encoder = enc
            elif where == "prefixed":
                self.arm_encoder = enc

        r = type("Robot", (MagicRobot,), {"__annotations__": {"arm": Arm}, "createObjects": createObjects})()
        try:
            r.robotInit()
            out = "ok"
        except (magicbot.inject.MagicInjectError, magicbot.magicrobot.MagicInjectError):
            out = "inject-error"
        except Exception as e:
            out = "other:" + repr(e)[:80]
        c.reach("inherited-ctor")
        if where == "absent":
            c.prove("C08.robot missing-or-mistyped-dependency-fails-at-startup", out == "inject-error", info=dict(where=where, out=out, default=dflt))
        else:
            c.prove("C08.robot ctor-parameters-injected", out == "ok" and r.arm.encoder is enc, info=dict(where=where, out=out, default=dflt, inherited=True))
    elif what == "numeric":
        # builtin numeric annotations are checked like any other type: an int is not a float, a bool is an int
        ann = [float, int, complex, str][c.choose("annotation", 4)]
        val = [5, 2.5, True, "x", 1j][c.choose("value", 5)]
        via = c.choose("via", 3)  # attribute / prefixed attribute / constructor parameter

        if via == 2:
            class Comp:
                def __init__(self, gain: ann):
                    self.gain = gain

                def execute(self):
                    pass
        else:
            class Comp:
                gain: ann

                def execute(self):
                    pass

        def createObjects(self):
            if via == 1:
                self.c1_gain = val
            else:
                self.gain = val

        r = type("Robot", (MagicRobot,), {"__annotations__": {"c1": Comp}, "createObjects": createObjects})()
        try:
            r.robotInit()
            out = "ok"
        except (magicbot.inject.MagicInjectError, magicbot.magicrobot.MagicInjectError):
            out = "inject-error"
        except Exception as e:
            out = "other:" + repr(e)[:80]
        c.reach("numeric-annotation")
        good = isinstance(val, ann)
        c.prove("C08.robot missing-or-mistyped-dependency-fails-at-startup", out == ("ok" if good else "inject-error"),
                info=dict(annotation=ann.__name__, value=repr(val), via=via, out=out))
        if out == "ok" and good:
            c.prove("C08.robot attribute-is-the-robot-object", r.c1.gain is val)
    else:
        # constructor parameter with a default value: still injected (plain name, then '<component>_<param>'), missing -> error
        where = ["plain", "prefixed", "absent"][c.choose("where", 3)]
        enc = Dep()

        class Arm:
            def __init__(self, encoder: Dep = None):
                self.encoder = encoder

            def execute(self):
                pass

        def createObjects(self):
            if where == "plain":
                self.encoder = enc
            elif where == "prefixed":
                self.arm_encoder = enc

        r = type("Robot", (MagicRobot,), {"__annotations__": {"arm": Arm}, "createObjects": createObjects})()
        try:
            r.robotInit()
            out = "ok"
        except (magicbot.inject.MagicInjectError, magicbot.magicrobot.MagicInjectError):
            out = "inject-error"
        except Exception as e:
            out = "other:" + repr(e)[:80]
        c.reach("ctor-default")
        if where == "absent":
            c.prove("C08.robot missing-or-mistyped-dependency-fails-at-startup", out == "inject-error", info=dict(where=where, out=out))
        else:
            c.prove("C08.robot ctor-parameters-injected", out == "ok" and r.arm.encoder is enc, info=dict(where=where, out=out))
    c.summary = dict(kind="more", what=what, out=out)


def path_twins(c, job):
    """Two components of the same class whose instances differ in what __init__ already set."""
    import magicbot
    import ntcore
    import wpilib
    from magicbot import MagicRobot

    class E:
        ds_attached = True

        def fms_attached(self):
            return False

        def now_us(self):
            return 0

        def now_s(self):
            return 0.0

        def sd_get_string(self, k, d):
            return d

    wpilib.ENV = E()
    ntcore.reset()
    wpilib.SmartDashboard.data.clear()
    lcm.set_auto_pkg(False)
    PRESET, shared = Dep(), Dep()
    left_presets = bool(c.boolean("left_presets"))
    right_presets = bool(c.boolean("right_presets"))
    nthird = c.choose("third_instance", 2)

    class Wheel:
        scale: Dep
        gain: int

        def __init__(self, presets: bool):
            if presets:
                self.scale = PRESET

        def execute(self):
            pass

    ann = {"left": Wheel, "right": Wheel}
    if nthird:
        ann["spare"] = Wheel
    body = {"__annotations__": ann}

    def createObjects(self):
        self.scale = shared
        self.gain = 0
        self.left_presets = left_presets
        self.right_presets = right_presets
        self.spare_presets = False

    body["createObjects"] = createObjects
    r = type("Robot", (MagicRobot,), body)()
    try:
        r.robotInit()
        out = "ok"
    except Exception as e:
        out = "error:" + repr(e)[:100]
    c.summary = dict(kind="twins", left=left_presets, right=right_presets, out=out)
    c.reach("twins")
    c.prove("C08.robot startup-succeeds", out == "ok", info=dict(out=out))
    if out != "ok":
        return
    for name, pre in (("left", left_presets), ("right", right_presets)) + ((("spare", False),) if nthird else ()):
        comp = getattr(r, name)
        c.prove("C08.robot same-class-instances-injected-individually", comp.scale is (PRESET if pre else shared) and comp.gain == 0,
                info=dict(component=name, preset=pre))


class C08(Spec):
    id = "C08"
    design_ref = "DESIGN.md §7 C08"
    real_capable = False
    clauses = ["C08.unit private", "C08.unit absent", "C08.unit mistyped", "C08.unit delivers", "C08.unit ctor", "C08.robot missing",
               "C08.robot attribute", "C08.robot components", "C08.robot preset", "C08.robot injected-before", "C08.robot ctor", "C08.robot inherited", "C08.robot same-class"]
    stubs = ["wpilib/hal/ntcore stubs for robotInit() (SendableChooser, SmartDashboard, NetworkTables)", "no autonomous package on sys.path (the selector tolerates that); for mode-object injection the selector is replaced by a stand-in holding two mode objects"]
    assumptions = ["presence flags are symbolic booleans decided through the solver; value kinds and robot definitions are enumerated programs"]
    outside = ["name collisions between '<component>_<attr>' of one component and a plain attribute requested by another (CrossHair second opinion of DESIGN §7(c) not built)",
               "typing constructs other than classes and one generic alias (list[int])"]

    def jobs(self, tier):
        j = [dict(kind="unit", ann=a, private=p) for a in ("Dep", "int", "str", "list[int]") for p in (False, True)]
        j += [dict(kind="unit", ann=a, private=False) for a in ("Optional[Dep]", "Union[int,float]", "ClassVar[int]")]
        j += [dict(kind="ctor"), dict(kind="robot"), dict(kind="twins"), dict(kind="more", what="narrowed"), dict(kind="more", what="ctor-default"),
              dict(kind="more", what="inherited-ctor"), dict(kind="more", what="numeric"), dict(kind="more", what="inherited-only"), dict(kind="more", what="automode")]
        return j

    def bounds(self, tier):
        return dict(unit="3 presence flags x 6 value kinds^2 x 4 annotation kinds x {public, private}",
                    robot="9 robot/attribute relations x 2 declaration orders x 3 constructor-injection variants x {plain, inherited annotations}")

    def reach_required(self, tier):
        return ["untouched", "prefixed-lookup", "absent", "mistyped", "delivered", "falsy-delivered", "ctor-private", "startup-fails", "startup-ok",
                "inherited-annotations", "ctor-injection", "twins", "inherited-robot", "preset-non-class-annotation", "narrowed-annotation", "ctor-default", "inherited-ctor", "numeric-annotation", "inherited-only", "automode"]

    def path_fn(self, c, job):
        return dict(unit=path_unit, ctor=path_ctor, robot=path_robot, twins=path_twins, more=path_more)[job["kind"]](c, job)

    def twin(self, tier):
        def tfn(c, job):
            import magicbot.inject as inj

            has = bool(c.boolean("has"))
            try:
                inj.find_injections({"dep": Dep}, {"dep": Dep()} if has else {}, "c1")
                ok = True
            except inj.MagicInjectError:
                ok = False
            c.prove("twin", ok)

        return [dict(kind="twin")], tfn


SPEC = C08()
