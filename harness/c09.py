"""C09: tunables are per-instance NetworkTables values at the documented key.

Real ``tunable`` / ``setup_tunables`` over the ntcore stub.  Symbolic: writeDefault (passed to the real
constructor), presence and value of a pre-existing topic value, every written value and the interleaving
of python-side and NetworkTables-side writes and reads on two instances.  Enumerated: owner kind,
subtable, value type.
"""
from collections.abc import Sequence

from engine import symex as sx
from engine.runner import Spec
from engine.symex import s_eq

OWNERS = {"components": "components", "autonomous": "autonomous", "robot": None}
TYPES = {
    "float": dict(default=1.5, topic="DoubleTopic"),
    "int": dict(default=3, topic="IntegerTopic"),
    "bool": dict(default=True, topic="BooleanTopic"),
    "str": dict(default="hello", topic="StringTopic"),
}
# topic-type table for defaults / hints (enumerated): (default, hint, expected topic class or error)
TYPE_TABLE = [
    # a type hint decides also when the default is non-empty and of another python type
    (2, float, "DoubleTopic"), ([1, 0], Sequence[float], "DoubleArrayTopic"), (True, int, "IntegerTopic"),
    (1.5, None, "DoubleTopic"), (3, None, "IntegerTopic"), (False, None, "BooleanTopic"), ("s", None, "StringTopic"),
    (b"raw", None, "RawTopic"), ([1.5, 2.5], None, "DoubleArrayTopic"), ([1, 2], None, "IntegerArrayTopic"),
    ((True, False), None, "BooleanArrayTopic"), (["a"], None, "StringArrayTopic"),
    ([], Sequence[float], "DoubleArrayTopic"), ([], Sequence[int], "IntegerArrayTopic"), ([], Sequence[str], "StringArrayTopic"),
    ([], Sequence[bool], "BooleanArrayTopic"), ((), Sequence[float], "DoubleArrayTopic"),
]


def expected_key(owner, cname, subtable, attr):
    prefix = f"/{cname}" if OWNERS[owner] is None else f"/{OWNERS[owner]}/{cname}"
    return f"{prefix}/{subtable}/{attr}" if subtable else f"{prefix}/{attr}"


def _value(c, typ, name):
    if typ == "float":
        return c.real(name, -1000, 1000)
    if typ == "int":
        return c.integer(name, -1000, 1000)
    if typ == "bool":
        return c.boolean(name)
    return f"str-{name}"


def _same(a, b):
    if a is b:
        return True
    if isinstance(a, str) or isinstance(b, str):
        return a == b
    return s_eq(a, b)


def path(c, job):
    import magicbot.magic_tunable as mt
    import ntcore
    import wpilib

    class E:
        ds_attached = True

        def fms_attached(self):
            return False

    wpilib.ENV = E()
    ntcore.reset()
    kind = job["kind"]
    c.summary = dict(job=job)
    if kind == "types":
        for i, (default, hint, topic) in enumerate(TYPE_TABLE):
            ns = {}
            if hint is None:
                class Owner:
                    t = mt.tunable(default)
            else:
                class Owner:
                    t = mt.tunable[hint](default)
            c.reach("type-table")
            try:
                o = Owner()
                mt.setup_tunables(o, f"o{i}", "components")
            except Exception as e:
                c.prove("C09.type supported-default-can-be-set-up", False, info=dict(default=repr(default), hint=str(hint), exc=repr(e)[:160]))
                continue
            got = ntcore.STORE.types.get(f"/components/o{i}/t")
            c.prove("C09.type topic-type-from-default-or-hint", got is not None and got[0] == topic, info=dict(default=repr(default), hint=str(hint), got=got))
            try:
                ok = list(o.t) == list(default) if isinstance(default, (list, tuple)) else o.t == default
            except Exception as e:
                ok = False
            c.prove("C09.type initial-read-is-default", ok, info=dict(default=repr(default)))
            # an NT-side write (no python-side assignment in between, same or later time stamp) is seen by the next read
            if isinstance(default, (list, tuple)) and default:
                try:
                    first = list(o.t)
                    nv = list(default)[::-1] + list(default)[:1]
                    ntcore.NetworkTableInstance.getDefault().getEntry(f"/components/o{i}/t").set(nv)
                    ok = list(o.t) == nv
                except Exception as e:
                    ok = False
                c.prove("C09.rw read-returns-latest-from-either-side", ok, info=dict(default=repr(default), array=True))
            # write / read round trip on the typed entry
            v2 = default[::-1] if isinstance(default, (list, tuple, bytes, str)) else (not default if isinstance(default, bool) else default + 1)
            try:
                o.t = v2
                ok = (list(o.t) == list(v2)) if isinstance(v2, (list, tuple)) else o.t == v2
            except Exception as e:
                ok = False
            c.prove("C09.type write-read-round-trip", ok, info=dict(default=repr(default)))
            if hint is float and not isinstance(default, (list, tuple)):
                # a float-hinted tunable holds any float, whatever python type its default literal has
                try:
                    o.t = 0.25
                    ok = o.t == 0.25 and ntcore.STORE.values.get(f"/components/o{i}/t") == 0.25
                except Exception as e:
                    ok = False
                c.prove("C09.type write-read-round-trip", ok, info=dict(default=repr(default), hint="float", wrote=0.25))
        # rejected defaults
        for bad in (object(), None, {"a": 1}):
            try:
                mt.tunable(bad)
                ok = False
            except TypeError:
                ok = True
            c.prove("C09.type unpublishable-default-rejected", ok, info=dict(default=repr(bad)))
        try:
            mt.tunable([])
            class Owner2:
                t = mt.tunable([])
            ok = False
        except (ValueError, TypeError, RuntimeError):
            ok = True
        c.prove("C09.type unhinted-empty-sequence-rejected", ok)
        return
    if kind == "special":
        return path_special(c, job, mt, ntcore)
    owner, sub, typ = job["owner"], job["subtable"], job["type"]
    default = TYPES[typ]["default"]
    wd = c.boolean("writeDefault")

    if job.get("redefine"):
        # the base class defines `a` with the opposite writeDefault and another default; the subclass definition wins
        other = {"float": 99.5, "int": 77, "bool": False, "str": "base"}[typ]
        wd_base = c.boolean("writeDefault_base")

        class Base:
            a = mt.tunable(other, writeDefault=wd_base, subtable=sub)
            b = mt.tunable(default, subtable=sub)

        class Owner(Base):
            a = mt.tunable(default, writeDefault=wd, subtable=sub)
            extra = mt.tunable(default, subtable=sub)  # a tunable only the subclass has

        if c.choose("base_instance_first", 2):
            # an instance of the base class is set up (under another name) before the subclass instances
            b0 = Base()
            mt.setup_tunables(b0, "base0", OWNERS[owner])
            for k0 in [k for k in ntcore.STORE.values if "/base0/" in k]:
                del ntcore.STORE.values[k0]
                ntcore.STORE.types.pop(k0, None)
        c.reach("redefined-tunable")
    else:
        class Owner:
            a = mt.tunable(default, writeDefault=wd, subtable=sub)
            b = mt.tunable(default, subtable=sub)

    names = ["n1", "n2"] if owner != "robot" else ["robot", "robot2"]
    attrs = ("a", "b", "extra") if job.get("redefine") else ("a", "b")
    keys = {(n, attr): expected_key(owner, n, sub, attr) for n in names for attr in attrs}
    # pre-existing topic value for instance 1 / attr a
    model = {}
    if c.choose("preexisting", 2):
        c.reach("preexisting-value")
        pv = _value(c, typ, "pre")
        ntcore.STORE.values[keys[(names[0], "a")]] = pv
        # the topic may carry any properties a dashboard / the persistent file gave it
        ntcore.STORE.props[keys[(names[0], "a")]] = dict(persistent=c.boolean("pre_persistent"), retained=c.boolean("pre_retained"))
        model[keys[(names[0], "a")]] = pv
        had = True
    else:
        had = False
    inst = []
    for n in names:
        o = Owner()
        mt.setup_tunables(o, n, OWNERS[owner])
        inst.append(o)
    # expected initial values (writeDefault rule)
    k1a = keys[(names[0], "a")]
    wdb = bool(wd)
    if had and not wdb:
        c.reach("existing-preserved")
    elif had and wdb:
        c.reach("existing-overwritten")
        model[k1a] = default
    else:
        model[k1a] = default
    for (n, attr), k in keys.items():
        model.setdefault(k, default)
    def rd(o, attr):
        """Attribute read; a tunable that was never bound raises: that is a failed read, not a harness crash."""
        try:
            return getattr(o, attr)
        except Exception as e:
            return f"<read failed: {type(e).__name__}>"

    c.prove("C09.init writeDefault-rule", _same(rd(inst[0], "a"), model[k1a]), info=dict(had=had, writeDefault=wdb))
    # topic type + key existence
    for (n, attr), k in keys.items():
        t = ntcore.STORE.types.get(k)
        c.prove("C09.key documented-key-and-type", t is not None and t[0] == TYPES[typ]["topic"] and k in ntcore.STORE.values, info=dict(key=k, got=t))
    c.prove("C09.key no-other-topics", set(ntcore.STORE.values) == set(keys.values()), info=dict(got=sorted(ntcore.STORE.values)))
    # interleaved operations
    K = job["K"]
    ops = ["py-write", "nt-write", "read"]
    for i in range(K):
        sel = c.choose(f"op{i}", 9)  # read | {py,nt}-write x instance x attribute
        op = "read" if sel == 0 else ("py-write" if sel <= 4 else "nt-write")
        which = ((sel - 1) % 4) // 2 if sel else 0
        attr = "a" if (sel - 1) % 2 == 0 else "b"
        n = names[which]
        k = keys[(n, attr)]
        if op == "py-write":
            v = _value(c, typ, f"w{i}")
            try:
                setattr(inst[which], attr, v)
            except Exception as e:
                c.prove("C09.rw python-write-accepted", False, info=dict(key=k, exc=repr(e)[:100]))
                continue
            model[k] = v
            c.reach("py-write")
            c.prove("C09.rw nt-side-sees-python-write", _same(ntcore.STORE.values.get(k), v), info=dict(key=k))
        elif op == "nt-write":
            v = _value(c, typ, f"n{i}")
            # an independent NetworkTables client publishing on the documented key
            ntcore.NetworkTableInstance.getDefault().getEntry(k).set(v)
            model[k] = v
            c.reach("nt-write")
        # after every operation every attribute of every instance reads its own latest value
        for (n2, attr2), k2 in keys.items():
            o = inst[names.index(n2)]
            c.prove("C09.rw read-returns-latest-from-either-side", _same(rd(o, attr2), model[k2]),
                    info=dict(step=i, op=op, wrote=k, read=k2))


EMPTY_DEFAULTS = [("", None, "other"), ([], Sequence[float], [1.5, 2.5]), ((), Sequence[int], [4]), (b"", None, b"xy"), (0, None, 5), (False, None, True),
                  (0.0, None, 2.5), ([], Sequence[str], ["a"])]


def path_special(c, job, mt, ntcore):
    what = job["what"]
    if what == "equal-owners":
        # owners with value-style equality: two equal (and equally hashing) instances bound under different names
        class Owner:
            a = mt.tunable(1.5)
            n = mt.tunable(3)

            def __init__(self, cfg):
                self.cfg = cfg

            def __eq__(self, other):
                return isinstance(other, Owner) and other.cfg == self.cfg

            def __hash__(self):
                return hash(self.cfg)

        o1, o2 = Owner("same"), Owner("same")
        order = c.choose("setup_order", 2)
        for o, n in ((o1, "n1"), (o2, "n2")) if order == 0 else ((o2, "n2"), (o1, "n1")):
            mt.setup_tunables(o, n, "components")
        v1, v2 = c.real("v1", -100, 100), c.real("v2", -100, 100)
        m = {"/components/n1/a": 1.5, "/components/n2/a": 1.5}
        c.reach("equal-owners")
        for i in range(job["K"]):
            sel = c.choose(f"op{i}", 4)
            k = "/components/n1/a" if sel % 2 == 0 else "/components/n2/a"
            v = c.real(f"w{i}", -1000, 1000)
            if sel < 2:
                setattr(o1 if sel % 2 == 0 else o2, "a", v)
                c.prove("C09.rw nt-side-sees-python-write", _same(ntcore.STORE.values.get(k), v), info=dict(key=k, equal_owners=True))
            else:
                ntcore.NetworkTableInstance.getDefault().getEntry(k).set(v)
            m[k] = v
            for o, k2 in ((o1, "/components/n1/a"), (o2, "/components/n2/a")):
                try:
                    got = o.a
                except Exception as e:
                    got = f"<read failed: {type(e).__name__}>"
                c.prove("C09.rw read-returns-latest-from-either-side", _same(got, m[k2]), info=dict(step=i, read=k2, equal_owners=True))
        c.prove("C09.key no-other-topics", set(ntcore.STORE.values) == {f"/components/{n}/{a}" for n in ("n1", "n2") for a in ("a", "n")},
                info=dict(got=sorted(ntcore.STORE.values)))
        return
    if what == "shared-descriptor":
        # one tunable object exposed by two classes under different names (the second class is defined later)
        when = c.choose("second_class_defined", 2)  # before / after the first instance is bound

        class Shooter:
            speed = mt.tunable(1.5)
            aim = mt.tunable(2.5, subtable="pid")

        sh = Shooter()
        if when == 0:
            class Intake:
                rate = Shooter.speed
                gain = Shooter.aim
        mt.setup_tunables(sh, "shooter", "components")
        if when == 1:
            class Intake:
                rate = Shooter.speed
                gain = Shooter.aim
        it = Intake()
        mt.setup_tunables(it, "intake", "components")
        sh2 = Shooter()
        mt.setup_tunables(sh2, "shooter2", "components")
        want = {"/components/shooter/speed", "/components/shooter/pid/aim", "/components/intake/rate", "/components/intake/pid/gain",
                "/components/shooter2/speed", "/components/shooter2/pid/aim"}
        c.reach("shared-descriptor")
        c.prove("C09.key no-other-topics", set(ntcore.STORE.values) == want, info=dict(got=sorted(ntcore.STORE.values)))
        v1, v2, v3 = c.real("v1", -100, 100), c.real("v2", -100, 100), c.real("v3", -100, 100)
        sh.speed = v1
        it.rate = v2
        sh2.speed = v3
        c.prove("C09.rw nt-side-sees-python-write", s_eq(ntcore.STORE.values.get("/components/shooter/speed"), v1) if "/components/shooter/speed" in ntcore.STORE.values else False)
        for o, a, v in ((sh, "speed", v1), (it, "rate", v2), (sh2, "speed", v3)):
            try:
                got = getattr(o, a)
            except Exception as e:
                got = f"<read failed: {type(e).__name__}>"
            c.prove("C09.rw read-returns-latest-from-either-side", _same(got, v), info=dict(attr=a, shared_descriptor=True))
        return
    if what == "rebind":
        # the same object is connected a second time (renamed component, or moved to another owner kind)
        class Owner:
            a = mt.tunable(1.5)
            keep = mt.tunable(2.5, writeDefault=False)

        o = Owner()
        mt.setup_tunables(o, "first", "components")
        v1 = c.real("v1", -100, 100)
        o.a = v1
        o.keep = v1
        kind2 = ["components", "autonomous", None][c.choose("second_owner_kind", 3)]
        mt.setup_tunables(o, "second", kind2)
        pfx = "/second" if kind2 is None else f"/{kind2}/second"
        c.reach("rebind")
        c.prove("C09.key documented-key-and-type", f"{pfx}/a" in ntcore.STORE.values and f"{pfx}/keep" in ntcore.STORE.values, info=dict(got=sorted(ntcore.STORE.values)))
        c.prove("C09.init writeDefault-rule", _same(o.a, 1.5) and _same(o.keep, 2.5), info=dict(rebind=True))
        v2 = c.real("v2", -100, 100)
        ntcore.NetworkTableInstance.getDefault().getEntry(f"{pfx}/a").set(v2)
        c.prove("C09.rw read-returns-latest-from-either-side", _same(o.a, v2), info=dict(rebind=True))
        v3 = c.real("v3", -100, 100)
        o.keep = v3
        c.prove("C09.rw nt-side-sees-python-write", _same(ntcore.STORE.values.get(f"{pfx}/keep"), v3), info=dict(rebind=True))
        return
    if what == "falsy-owner":
        # a component that is container-like: its truth value changes over time (empty queue = falsy)
        class Queue:
            depth = mt.tunable(4)
            gain = mt.tunable(0.5)

            def __init__(self):
                self.items = []

            def __len__(self):
                return len(self.items)

        q = Queue()
        mt.setup_tunables(q, "q", "components")
        m = {"depth": 4, "gain": 0.5}
        c.reach("falsy-owner")
        for i in range(job["K"]):
            sel = c.choose(f"op{i}", 4)
            if sel == 0:
                q.items.append(i)
            elif sel == 1:
                del q.items[:]
            elif sel == 2:
                v = c.real(f"w{i}", -1000, 1000)
                q.gain = v
                m["gain"] = v
            else:
                v = c.integer(f"n{i}", -1000, 1000)
                ntcore.NetworkTableInstance.getDefault().getEntry("/components/q/depth").set(v)
                m["depth"] = v
            for a in ("depth", "gain"):
                try:
                    got = getattr(q, a)
                except Exception as e:
                    got = f"<read failed: {type(e).__name__}>"
                ok = _same(got, m[a]) if not isinstance(got, mt.tunable) else False
                c.prove("C09.rw read-returns-latest-from-either-side", ok, info=dict(step=i, attr=a, owner_truthy=bool(q.items), got=str(type(got).__name__)))
        return
    # falsy / empty defaults: the writeDefault rule does not depend on the value of the default
    i = c.choose("default", len(EMPTY_DEFAULTS))
    default, hint, pre = EMPTY_DEFAULTS[i]
    wd = bool(c.boolean("writeDefault"))
    explicit = c.choose("writeDefault_passed", 2)

    class Owner:
        if hint is None:
            t = mt.tunable(default, writeDefault=wd) if explicit or not wd else mt.tunable(default)
        else:
            t = mt.tunable[hint](default, writeDefault=wd) if explicit or not wd else mt.tunable[hint](default)

    k = "/components/e/t"
    ntcore.STORE.values[k] = pre
    o = Owner()
    mt.setup_tunables(o, "e", "components")
    c.reach("falsy-default-with-existing-value")
    want = default if wd else pre
    try:
        got = o.t
        ok = (list(got) == list(want)) if isinstance(want, (list, tuple)) else (got == want and type(got) is type(want))
    except Exception as e:
        got, ok = repr(e)[:80], False
    c.prove("C09.init writeDefault-rule", ok, info=dict(default=repr(default), existing=repr(pre), writeDefault=wd, got=repr(got)[:60]))


class C09(Spec):
    id = "C09"
    design_ref = "DESIGN.md §7 C09"
    real_capable = False
    chunk = 100
    clauses = ["C09.type topic", "C09.init", "C09.key documented", "C09.key no-other", "C09.rw nt-side", "C09.rw read"]
    stubs = ["ntcore stub: one value and one type per topic; set overwrites, setDefault writes only if absent, get returns the value or the entry default; "
             "an NT-side client is a write to the same store under the documented key"]
    assumptions = ["default values: two-per-type concrete defaults (the constructor inspects type(default))", "single NetworkTables instance"]
    outside = ["real NetworkTables client/server transport", "struct-typed tunables (compiled wpiutil types)", "more than K interleaved operations"]

    def jobs(self, tier):
        K = 4 if tier == "quick" else 5
        j = [dict(kind="types")]
        combos = [("components", None, "float"), ("components", "state", "int"), ("autonomous", None, "bool"), ("robot", None, "str"),
                  ("robot", "sub", "float")]
        if tier != "quick":
            combos += [("autonomous", "tab", "int"), ("components", "x", "str"), ("components", None, "bool")]
        j += [dict(kind="rw", owner=o, subtable=s, type=t, K=K) for o, s, t in combos]
        j += [dict(kind="rw", owner="components", subtable=None, type="int", K=1, redefine=True),
              dict(kind="rw", owner="robot", subtable="s", type="float", K=1, redefine=True)]
        j += [dict(kind="special", what="equal-owners", K=3 if tier == "quick" else 5), dict(kind="special", what="falsy-default"),
              dict(kind="special", what="falsy-owner", K=3 if tier == "quick" else 5), dict(kind="special", what="shared-descriptor"), dict(kind="special", what="rebind")]
        return j

    def bounds(self, tier):
        return dict(K=4 if tier == "quick" else 5, jobs=self.jobs(tier), values="symbolic real/int/bool per write; strings concrete tokens")

    def reach_required(self, tier):
        return ["type-table", "preexisting-value", "existing-preserved", "existing-overwritten", "py-write", "nt-write", "redefined-tunable", "equal-owners", "falsy-default-with-existing-value", "falsy-owner", "shared-descriptor", "rebind"]

    def extra(self, tier, seed):
        from real.run import nt_contract

        r = nt_contract()
        return dict(obligations=0, discharged=0, validated=r["validated"], problems=r["problems"], samples=r.get("samples", []),
                    info=dict(nt_stub_contract_observations_matching_real_ntcore=r["validated"]))

    def path_fn(self, c, job):
        path(c, job)

    def twin(self, tier):
        def tfn(c, job):
            import magicbot.magic_tunable as mt
            import ntcore

            ntcore.reset()

            class Owner:
                a = mt.tunable(1.5)

            o1, o2 = Owner(), Owner()
            mt.setup_tunables(o1, "n1")
            mt.setup_tunables(o2, "n2")
            o1.a = c.real("v", -10, 10)
            c.prove("twin", s_eq(o2.a, o1.a))

        return [dict(kind="twin")], tfn


SPEC = C09()
