"""C10: will_reset_to values never survive into the next control-loop iteration."""
from engine.symex import s_eq
from harness import loop_common as lcm
from harness.loop_specs import C05, LoopSpec, mkjob

MARKED = {"R1": [("c1", "x", 0), ("c2", "y", "dflt"), ("c1", "_hidden", -1), ("c2", "target", lcm.NO_TARGET)],
          "R2": [("c1", "x", 0), ("c2", "x", 0), ("c2", "y", "dflt"), ("c1", "z", 1.5), ("c2", "z", 2.5)],
          "R3": [("c1", "x", 0), ("c2", "y", "dflt"), ("c2", "target", lcm.NO_TARGET)],
          "R5": [("c1", "x", 0), ("c2", "x", 0), ("c1", "y", "dflt"), ("c2", "y", "dflt")]}
PLAIN = [("c1", "plain", "init"), ("c2", "plain", "init")]
WRITERS = ["robot.teleopPeriodic", "auto.on_iteration", "c1.execute", "c2.execute"]
WOPTS = [(), ("mode",), ("c1",), ("c2",), ("mode", "c2"), ("c1", "c2")]


def _writer_kind(site):
    if site in ("robot.teleopPeriodic", "auto.on_iteration"):
        return "mode"
    return site.split(".")[0]


def add_feedbacks(H, CompA, CompB, CompB1, CompC, feedback):
    def get_probe(self):
        H.callback(f"{self.NAME}.fb_probe", self.NAME)
        return 0

    for cls in (CompA, CompB1):
        cls.get_probe = feedback(get_probe)
    H.fb_specs = [dict(site="c1.fb_probe"), dict(site="c2.fb_probe")]


def run(c, job):
    H = None
    layout = job["layout"]
    attrs = MARKED[layout] + PLAIN
    state = dict(wsel=None, wkey=None)

    def hook(site):
        r = H.robot
        comps = {"c1": getattr(r, "c1", None), "c2": getattr(r, "c2", None)}
        if comps["c1"] is None or comps["c2"] is None:
            return
        vals = tuple(getattr(comps[cn], a, "<missing>") for cn, a, _ in attrs)
        H.log.add("read", site, vals)
        j = comps["c2"].__dict__.get("journal")
        if j is not None:
            # assignments seen by c2's own __setattr__ hook since the first observation: only the ones made here
            if state.get("j0") is None:
                state["j0"] = len(j)
            H.log.add("journal", site, len(j) - state["j0"], state.get("c2_sets", 0))
        if site in WRITERS:
            key = H.env.k  # refresh counter identifies the iteration
            if state["wkey"] != key:
                state["wkey"] = key
                state["wsel"] = WOPTS[c.choose(f"w{key}", len(WOPTS))]
            if _writer_kind(site) in state["wsel"]:
                tok = c.real(f"tok{key}_{site}", -1000, 1000)  # any value, including the declared default
                for cn, a, _ in attrs:
                    setattr(comps[cn], a, tok)
                    if cn == "c2" and state.get("j0") is not None:
                        state["c2_sets"] = state.get("c2_sets", 0) + 1
                H.log.add("write", site, tok)

    def pre_start(h, r):
        nonlocal H
        H = h
        h.marker_attrs = [(cn, a, d) for cn, a, d in MARKED[layout]]
        for s in ["robot.teleopPeriodic", "robot.disabledPeriodic", "robot.testPeriodic", "robot.robotPeriodic",
                  "auto.on_iteration", "c1.execute", "c2.execute", "c3.execute", "c1.fb_probe", "c2.fb_probe"]:
            h.hooks[s] = hook

    def twin_fb(H_, cls, feedback):
        def get_probe(self):
            H_.callback(f"{self.NAME}.fb_probe", self.NAME)
            return 0

        cls.get_probe = feedback(get_probe)

    H = lcm.run_robot(c, job, dict(pre_start=pre_start, feedbacks=add_feedbacks, twin_feedbacks=twin_fb))
    return H, attrs


def clauses(c, H, attrs):
    pre, segs = lcm.parse(H.log)
    for e in H.log.ev:
        if e[0] == "setup_markers":
            c.reach("setup-sees-markers")
            for cn, a, v, d in e[2]:
                same = (v is d) if isinstance(d, lcm._NoTarget) else (not isinstance(v, lcm._NoTarget) and s_eq(v, d))
                c.prove("C10.reset starts-at-declared-default-before-any-setup", same, info=dict(seen_by=e[1], attr=f"{cn}.{a}", got=str(v)[:60]))
    nmarked = len(attrs) - len(PLAIN)
    cur = [d for _, _, d in attrs]
    for sg in segs:
        for it in sg.iters:
            enabled_iter = sg.mode in ("teleop", "auto")
            for e in it.events:
                if e[0] == "read":
                    c.reach("read")
                    for j, (cn, a, d) in enumerate(attrs):
                        lab = "C10.reset value-seen" if j < nmarked else "C10.untouched plain-attribute-keeps-value"
                        if cur[j] is not d and j < nmarked:
                            c.reach("read-sees-same-iteration-write")
                        same = (e[2][j] is cur[j]) if (e[2][j] is lcm.NO_TARGET or cur[j] is lcm.NO_TARGET or isinstance(e[2][j], lcm._NoTarget)) else s_eq(e[2][j], cur[j])
                        c.prove(lab, same, info=dict(site=e[1], attr=f"{cn}.{a}", got=e[2][j], expected=cur[j], mode=sg.mode))
                elif e[0] == "write":
                    c.reach("write")
                    cur = [e[2]] * len(attrs)
                elif e[0] == "journal":
                    c.reach("journal")
                    c.prove("C10.untouched reset-does-not-go-through-attribute-assignment", e[2] == e[3],
                            info=dict(site=e[1], assignments_seen_by_setattr_hook=e[2], made_by_user_code=e[3]))
            if enabled_iter:
                # after the iteration every marked attribute is back at its default
                for j in range(nmarked):
                    cur[j] = attrs[j][2]
                c.reach("enabled-iteration-end")


class C10(LoopSpec):
    id = "C10"
    clauses = ["C10.reset value-seen", "C10.untouched"]
    outside = C05.outside + ["will_reset_to on classes with __slots__ (documented unsupported)", "writers other than teleopPeriodic / the autonomous mode / components' execute()"]

    def jobs(self, tier):
        if tier == "quick":
            return [mkjob("R1", 3, True, fms=True), mkjob("R2", 3, True, fms=True, use_teleop_in_autonomous=True), mkjob("R5", 3, False, fms=True),
                    mkjob("R1", 3, True, fms=True, faults=1, fault_patterns=["always"],
                          fault_sites=["robot.teleopPeriodic", "c1.execute", "c2.execute", "robot.robotPeriodic", "auto.on_iteration"]),
                    # faults that are not Exception subclasses (sys.exit() / Ctrl-C inside a callback), swallowed under the FMS
                    mkjob("R1", 2, True, fms=True, faults=1, fault_patterns=["always", "later"], fault_kind="base",
                          fault_sites=["c1.execute", "c2.execute", "robot.robotPeriodic"])]
        fs = ["robot.teleopPeriodic", "c1.execute", "c2.execute", "robot.robotPeriodic", "auto.on_iteration", "c1.fb_probe"]
        return [mkjob("R1", 4, True, fms=True), mkjob("R2", 3, True, fms=True), mkjob("R3", 3, True, fms=True), mkjob("R5", 3, True, fms=True),
                mkjob("R2", 3, True, fms=True, faults=1, fault_patterns=["always", "first", "later"], fault_sites=fs),
                mkjob("R1", 2, True, fms=True, faults=2, fault_patterns=["always"], fault_sites=fs[:4]),
                mkjob("R1", 3, True, fms=True, faults=1, fault_patterns=["always", "later"], fault_kind="any", fault_sites=fs[:4])]

    def reach_required(self, tier):
        return ["read", "write", "read-sees-same-iteration-write", "enabled-iteration-end", "journal", "setup-sees-markers"]

    def path_fn(self, c, job):
        H, attrs = run(c, job)
        c.prove("C10.run no-exception", H.outcome[0] == "normal", info=dict(outcome=str(H.outcome)))
        if H.outcome[0] == "normal":
            clauses(c, H, attrs)

    def twin(self, tier):
        def tfn(c, job):
            H, attrs = run(c, job)
            for e in H.log.ev:
                if e[0] == "read":
                    c.prove("twin", s_eq(e[2][0], 0))

        return [mkjob("R1", 2, True, fms=True)], tfn


SPEC = C10()
