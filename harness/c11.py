"""C11: @feedback methods are published every iteration in every mode under their key."""
from collections.abc import Sequence

from engine.symex import s_eq
from harness import loop_common as lcm
from harness.loop_specs import C05, LoopSpec, mkjob

# site, owner, method name, explicit key, hint, expected NT key, expected topic class
FB = [
    dict(site="c1.fb_angle", owner="c1", meth="get_angle", key=None, hint=float, nt="/components/c1/angle", topic="DoubleTopic"),
    dict(site="c1.fb_speed", owner="c1", meth="speed", key=None, hint=None, nt="/components/c1/speed", topic=None),
    dict(site="c2.fb_thing", owner="c2", meth="get_thing", key="custom", hint=int, nt="/components/c2/custom", topic="IntegerTopic"),
    dict(site="c2.fb_arr", owner="c2", meth="get_arr", key=None, hint=Sequence[float], nt="/components/c2/arr", topic="DoubleArrayTopic"),
    dict(site="c1.fb_count", owner="c1", meth="get_count", key=None, hint="int", nt="/components/c1/count", topic="IntegerTopic"),
    dict(site="robot.fb_rv", owner="robot", meth="get_rv", key=None, hint=bool, nt="/robot/rv", topic="BooleanTopic"),
    dict(site="robot.fb_status", owner="robot", meth="status", key="get_status", hint=str, nt="/robot/get_status", topic="StringTopic"),
    # a second str feedback on the same owner, later in attribute order, and a str one on a component
    dict(site="robot.fb_text", owner="robot", meth="text", key=None, hint=str, nt="/robot/text", topic="StringTopic"),
    dict(site="c2.fb_label", owner="c2", meth="get_label", key=None, hint=str, nt="/components/c2/label", topic="StringTopic"),
    dict(site="c2.fb_zname", owner="c2", meth="zname", key=None, hint=str, nt="/components/c2/zname", topic="StringTopic"),
    # getters produced by a factory: the function's own __name__ is not the name of the method on its owner
    dict(site="c1.fb_heading", owner="c1", meth="get_heading", fn_name="_read", key=None, hint=float, nt="/components/c1/heading", topic="DoubleTopic"),
    dict(site="robot.fb_volts", owner="robot", meth="volts", fn_name="_read", key=None, hint=float, nt="/robot/volts", topic="DoubleTopic"),
    # only the *leading* get_ is removed
    dict(site="c1.fb_widget", owner="c1", meth="get_widget_count", key=None, hint=int, nt="/components/c1/widget_count", topic="IntegerTopic"),
    dict(site="robot.fb_budget", owner="robot", meth="get_budget_left", key=None, hint=None, nt="/robot/budget_left", topic=None),
    # private-looking method names are feedbacks like any other
    dict(site="c1.fb_raw", owner="c1", meth="_raw_counts", key=None, hint=int, nt="/components/c1/_raw_counts", topic="IntegerTopic"),
    dict(site="robot.fb_limit", owner="robot", meth="_limit_hit", key="at_limit", hint=bool, nt="/robot/at_limit", topic="BooleanTopic"),
    # variable-length homogeneous tuple hint: an array topic of the element type, whatever the values look like
    dict(site="c2.fb_tup", owner="c2", meth="get_tup", key=None, hint=tuple[float, ...], nt="/components/c2/tup", topic="DoubleArrayTopic"),
]


TWIN_FB = [dict(site="c1.fb_val", owner="c1", meth="get_val", key=None, hint=float, nt="/components/c1/val", topic="DoubleTopic"),
           dict(site="c2.fb_val", owner="c2", meth="get_val", key=None, hint=float, nt="/components/c2/val", topic="DoubleTopic")]

OVERRIDE = dict(site="c2.fb_angle_override", owner="c2", meth="get_angle", key=None, hint=float, nt="/components/c2/angle", topic="DoubleTopic")


def _mk_getter(H, spec, state):
    site = spec["site"]

    def getter(self):
        c = H.c
        state["n"] += 1
        n = state["n"]
        H.callback(site, spec["owner"])  # logs, may raise per fault plan
        h = spec["hint"]
        if h is float or h is None:
            v = c.real(f"v_{site}_{n}", -1000, 1000)
        elif h is int or h == "int":
            v = c.integer(f"v_{site}_{n}", -1000, 1000)
        elif h is bool:
            v = c.boolean(f"v_{site}_{n}")
        elif h is str:
            v = f"{site}#{n}"
        elif h == tuple[float, ...]:
            # python ints (and, every other time, nothing at all) under a float-array hint
            v = (n, n + 1) if n % 2 else ()
            H.log.add("fbret", site, list(v))
            return v
        else:
            # a pre-allocated buffer updated in place and returned every time (same object, new contents)
            buf = state.setdefault(("buf", id(self)), [0.0, 0.0])
            buf[0] = c.real(f"v_{site}_{n}_0", -10, 10)
            buf[1] = c.real(f"v_{site}_{n}_1", -10, 10)
            H.log.add("fbret", site, list(buf))
            return buf
        H.log.add("fbret", site, v)
        return v

    getter.__name__ = spec.get("fn_name", spec["meth"])
    getter.__qualname__ = getter.__name__
    if spec["hint"] is not None:
        getter.__annotations__ = {"return": spec["hint"]}
    return getter


def _decorate(feedback, fn, spec):
    return feedback(fn) if spec["key"] is None else feedback(key=spec["key"])(fn)


def run(c, job):
    state = dict(n=0)

    def comp_fb(H, CompA, CompB, CompB1, CompC, feedback):
        for spec in FB:
            if spec["owner"] == "c1":
                setattr(CompA, spec["meth"], _decorate(feedback, _mk_getter(H, spec, state), spec))
            elif spec["owner"] == "c2":
                # R2's c2 class inherits CompA: its own feedbacks are added to the subclass only
                for cls in (CompB, CompB1):
                    setattr(cls, spec["meth"], _decorate(feedback, _mk_getter(H, spec, state), spec))
        # R2: the subclass overrides the inherited get_angle and decorates the override too
        ov = dict(OVERRIDE)
        setattr(CompB, ov["meth"], _decorate(feedback, _mk_getter(H, ov, state), ov))
        H.fb_specs = list(FB)

    def robot_fb(H, RobotBase0, feedback):
        for spec in FB:
            if spec["owner"] == "robot":
                setattr(RobotBase0, spec["meth"], _decorate(feedback, _mk_getter(H, spec, state), spec))

    def twin_fb(H, CompTwin, feedback):
        # two components of one and the same class: each publishes its own value under its own name
        def get_val(self):
            site = f"{self.NAME}.fb_val"
            state["n"] += 1
            H.callback(site, self.NAME)
            v = H.c.real(f"v_{site}_{state['n']}", -1000, 1000)
            H.log.add("fbret", site, v)
            return v

        get_val.__annotations__ = {"return": float}
        CompTwin.get_val = feedback(get_val)
        H.fb_specs = list(TWIN_FB)

    return lcm.run_robot(c, job, dict(feedbacks=comp_fb, robot_feedbacks=robot_fb, twin_feedbacks=twin_fb))


def _same(a, b):
    if isinstance(a, list) and isinstance(b, (list, tuple)):
        return len(a) == len(b) and all(x is y for x, y in zip(a, b))
    if a is b:
        return True
    return s_eq(a, b)


def clauses(c, H):
    import ntcore

    pre, segs = lcm.parse(H.log)
    layout = H.job["layout"]
    specs = list(FB)
    base = FB
    if layout == "R5":
        specs = base = TWIN_FB + [s for s in FB if s["owner"] == "robot"]
    if layout == "R2":
        # c2 (CompB) inherits CompA's getters as well: published under /components/c2/...; get_angle is overridden
        specs = specs + [dict(s, site=s["site"], owner="c2", nt=s["nt"].replace("/c1/", "/c2/"), inherited=True)
                         for s in FB if s["owner"] == "c1" and s["meth"] != "get_angle"] + [dict(OVERRIDE)]
    last = {}
    for sg in segs:
        for it in sg.iters:
            c.reach(f"fb-iteration-{sg.mode}")
            snap = it.snapshot
            outcomes = {}  # site -> list of ("ret", value) | ("raise",) in call order
            order = []
            for e in it.events:
                if e[0] == "cb" and ".fb_" in e[1]:
                    order.append(e[1])
                    outcomes.setdefault(e[1], []).append(("raise",))  # until a value is returned
                elif e[0] == "fbret":
                    outcomes[e[1]][-1] = ("ret", e[2])
            for s in base + ([OVERRIDE] if layout == "R2" else []):
                n = order.count(s["site"])
                exp_n = 2 if (layout == "R2" and s["owner"] == "c1" and s["meth"] != "get_angle") else 1
                c.prove("C11.once getter-called-once-per-iteration", n == exp_n, info=dict(site=s["site"], calls=n, mode=sg.mode))
            # published values: in R2 the inherited getters are called twice (c1 then c2): map by order
            seen = {}
            for s in specs:
                site = s["site"]
                k = seen.get(site, 0)
                seen[site] = k + 1
            for s in specs:
                site = s["site"]
                outs = outcomes.get(site, [])
                j = 1 if s.get("inherited") else 0
                key = s["nt"]
                if j >= len(outs):
                    continue
                if outs[j][0] == "raise":
                    c.reach("raising-getter")
                    c.prove("C11.raise entry-unchanged", _same(snap.get(key, "<absent>"), last.get(key, "<absent>")),
                            info=dict(key=key, mode=sg.mode))
                    continue
                c.reach("published")
                c.prove("C11.value entry-holds-value-of-this-iteration", _same(snap.get(key, "<absent>"), outs[j][1]),
                        info=dict(key=key, mode=sg.mode, got=str(snap.get(key, "<absent>"))[:80]))
                last[key] = outs[j][1]
    # topic types of hinted getters
    for s in specs:
        if s["topic"] is not None:
            t = ntcore.STORE.types.get(s["nt"])
            c.reach("typed-topic")
            c.prove("C11.type topic-type-follows-hint", t is not None and t[0] == s["topic"], info=dict(key=s["nt"], got=t, expected=s["topic"]))
        else:
            c.prove("C11.type unhinted-uses-generic-entry", s["nt"] not in ntcore.STORE.types, info=dict(key=s["nt"]))


class C11(LoopSpec):
    id = "C11"
    clauses = ["C11.once", "C11.value", "C11.raise", "C11.type topic"]
    outside = C05.outside + ["struct-typed feedbacks (wpiutil structs are compiled code)",
                             "type inference for unhinted getters is done inside ntcore (checked only against the stub: generic entry used)"]

    def jobs(self, tier):
        fs = [s["site"] for s in FB]
        if tier == "quick":
            return [mkjob("R1", 3, True, fms=True, nt_snapshot=True),
                    mkjob("R2", 3, False, fms=True, nt_snapshot=True), mkjob("R5", 3, True, fms=True, nt_snapshot=True),
                    mkjob("R1", 3, True, fms=True, nt_snapshot=True, faults=1, fault_sites=fs, fault_patterns=["later", "always"]),
                    # a getter failing with something that is not an Exception subclass
                    mkjob("R1", 2, False, fms=True, nt_snapshot=True, faults=1, fault_sites=[fs[0], fs[5], fs[8]], fault_patterns=["always"], fault_kind="base"),
                    # other callbacks of the iteration raising must not stop the feedbacks from being published
                    mkjob("R1", 3, True, fms=True, nt_snapshot=True, faults=1, use_teleop_in_autonomous=True, fault_patterns=["always"],
                          fault_sites=["robot.teleopPeriodic", "c1.execute", "auto.on_iteration", "robot.disabledPeriodic", "robot.testPeriodic"])]
        return [mkjob("R1", 5, True, fms=True, nt_snapshot=True), mkjob("R2", 4, True, fms=True, nt_snapshot=True),
                mkjob("R3", 5, False, fms=True, nt_snapshot=True), mkjob("R5", 4, True, fms=True, nt_snapshot=True),
                mkjob("R1", 4, True, fms=True, nt_snapshot=True, faults=1, fault_sites=fs, fault_patterns=["first", "later", "always"]),
                mkjob("R2", 3, True, fms=True, nt_snapshot=True, faults=2, fault_sites=fs[:4], fault_patterns=["later", "always"]),
                mkjob("R1", 3, True, fms=True, nt_snapshot=True, faults=1, fault_sites=fs, fault_patterns=["later", "always"], fault_kind="any"),
                mkjob("R1", 4, True, fms=True, nt_snapshot=True, faults=1, use_teleop_in_autonomous=True, fault_patterns=["always", "first"],
                      fault_sites=["robot.teleopPeriodic", "c1.execute", "auto.on_iteration", "robot.disabledPeriodic", "robot.testPeriodic", "robot.robotPeriodic"])]

    def reach_required(self, tier):
        return ["fb-iteration-teleop", "fb-iteration-auto", "fb-iteration-disabled", "fb-iteration-test", "published",
                "raising-getter", "typed-topic"]

    def extra(self, tier, seed):
        from real.run import nt_contract

        r = nt_contract()
        l = lcm.validate_against_real(seed, 6 if tier == "quick" else 24)
        return dict(obligations=0, discharged=0, validated=r["validated"] + l["validated"], problems=r["problems"] + l["problems"],
                    samples=r.get("samples", []) + l["samples"],
                    info=dict(nt_stub_contract_observations_matching_real_ntcore=r["validated"], loop_scripts_identical_in_stub_and_real_world=l["validated"], notes=l["notes"]))

    def path_fn(self, c, job):
        H = run(c, job)
        c.prove("C11.run no-exception", H.outcome[0] == "normal", info=dict(outcome=str(H.outcome)))
        if H.outcome[0] == "normal":
            clauses(c, H)

    def twin(self, tier):
        def tfn(c, job):
            H = run(c, job)
            pre, segs = lcm.parse(H.log)
            for sg in segs:
                for it in sg.iters:
                    c.prove("twin", s_eq(it.snapshot.get("/components/c1/angle", 0), 0))

        return [mkjob("R1", 2, True, fms=True, nt_snapshot=True)], tfn


SPEC = C11()
