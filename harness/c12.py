"""C12: malformed StateMachine definitions are rejected when defined or instantiated.

Classes are assembled from the *real* decorators' output.  The first / must_finish flags of every state are
symbolic booleans passed to the real decorators (so the real _build_states decides them through the
solver); the decorator kind (state / timed_state / default_state) and the inheritance layout are
enumerated.  Signature / alias / owner / name-collision rejections are plain enumeration (a solver adds
nothing there; said so in the evidence).
"""
import inspect
import itertools

import z3

from engine import symex as sx
from engine.runner import Spec
from engine.symex import SBool, lift_b, s_and, s_not, s_or

LAYOUTS = ["single", "linear", "linear-override", "linear-shadow", "mixin-shadow", "diamond", "diamond-override", "mixin"]
KINDS = ["state", "timed", "default"]


def _mk_state(smm, name, kind, first, mf, doc):
    def f(self):
        pass

    f.__name__ = name
    f.__qualname__ = name
    f.__doc__ = doc
    if kind == "state":
        return smm.state(first=first, must_finish=mf)(f)
    if kind == "timed":
        return smm.timed_state(duration=1.0, first=first, must_finish=mf)(f)
    return smm.default_state(f)


def build(c, smm, layout, n):
    """Returns (cls, expected ordered dict name -> (kind, first flag, doc))."""
    specs = []
    for i in range(n):
        kind = KINDS[c.choose(f"kind{i}", 3)]
        first = c.boolean(f"first{i}") if kind != "default" else False
        mf = c.boolean(f"mf{i}") if kind != "default" else False
        # the last state carries a (legal) underscore-prefixed name
        nm = f"_s{i}" if (i == n - 1 and n > 1) else f"s{i}"
        specs.append((nm, kind, first, mf, f"doc of s{i}" if i % 2 == 0 else None))
    SM = smm.StateMachine

    def ns(items):
        return {name: _mk_state(smm, name, kind, first, mf, doc) for name, kind, first, mf, doc in items}

    order = {}  # expected members, bases first, definition order, redefinition keeps the base position

    def note(items):
        for name, kind, first, mf, doc in items:
            order[name] = (kind, first, doc)

    if layout == "single":
        cls = type("M", (SM,), ns(specs))
        note(specs)
    elif layout == "linear-shadow":
        # the subclass redefines an inherited state name as something that is not a state: the state is gone
        k = max(1, n // 2)
        base = type("B", (SM,), ns(specs[:k]))
        body = ns(specs[k:])
        what = c.choose("shadow_with", 3)
        body[specs[0][0]] = [None, 7, (lambda self: None)][what]
        cls = type("M", (base,), body)
        note(specs[1:k])
        note(specs[k:])
    elif layout == "mixin-shadow":
        # an ordinary (non-StateMachine) mix-in listed before the machine base redefines a state name as a non-state
        base = type("B", (SM,), ns(specs))
        what = c.choose("shadow_with", 3)
        plain = type("Plain", (), {specs[0][0]: [None, 7, (lambda self: None)][what]})
        cls = type("M", (plain, base), {})
        note(specs[1:])
    elif layout in ("linear", "linear-override"):
        k = max(1, n // 2)
        base = type("B", (SM,), ns(specs[:k]))
        note(specs[:k])
        rest = list(specs[k:])
        if layout == "linear-override":
            # redefine the base's first state in the subclass with fresh flags
            kind = KINDS[c.choose("okind", 3)]
            of = c.boolean("ofirst") if kind != "default" else False
            rest.append((specs[0][0], kind, of, False, "overridden"))
        cls = type("M", (base,), ns(rest))
        note(rest)
    elif layout in ("diamond", "diamond-override"):
        a = type("A", (SM,), ns(specs[:1]))
        note(specs[:1])
        left = specs[1:2]
        right = specs[2:3]
        cl = type("L", (a,), ns(left))
        cr_items = list(right)
        if layout == "diamond-override":
            kind = KINDS[c.choose("okind", 3)]
            of = c.boolean("ofirst") if kind != "default" else False
            cr_items.append((specs[0][0], kind, of, False, "overridden in R"))
        cr = type("R", (a,), ns(cr_items))
        cls = type("M", (cl, cr), ns(specs[3:]))
        # reversed MRO of M(L, R): object, StateMachine, A, R, L, M
        note(cr_items)
        note(left)
        note(specs[3:])
    else:  # mixin
        m1 = type("M1", (SM,), ns(specs[:1]))
        m2 = type("M2", (SM,), ns(specs[1:2]))
        cls = type("M", (m1, m2), ns(specs[2:]))
        # reversed MRO of M(M1, M2): ..., M2, M1, M
        note(specs[1:2])
        note(specs[:1])
        note(specs[2:])
    return cls, order


def path_flags(c, job):
    import magicbot.magic_tunable as mt
    import magicbot.state_machine as smm
    import ntcore
    import wpilib

    class E:
        ds_attached = True

        def fms_attached(self):
            return False

        def now_s(self):
            return 0.0

    wpilib.ENV = E()
    ntcore.reset()
    cls, order = build(c, smm, job["layout"], job["n"])
    if c.symbolic:
        firsts = [lift_b(f) for _, (k, f, _) in order.items()]
        nfirst = z3.Sum([z3.If(f, 1, 0) for f in firsts]) if firsts else z3.IntVal(0)
        mk = SBool
        conj = z3.And
    else:
        nfirst = sum(1 for _, (k, f, _) in order.items() if f)
        mk = bool
        conj = lambda a, b: a and b
    ndefault = sum(1 for _, (k, _, _) in order.items() if k == "default")
    if c.choose("bases_first", 2):
        c.reach("bases-instantiated-first")
        for b in reversed(cls.__mro__[1:]):
            if b is not smm.StateMachine and isinstance(b, type) and issubclass(b, smm.StateMachine):
                try:
                    b()
                except Exception:
                    pass
    try:
        sm = cls()
        out = "ok"
    except smm.NoFirstStateError:
        out = "nofirst"
    except smm.MultipleFirstStatesError:
        out = "multifirst"
    except smm.MultipleDefaultStatesError:
        out = "multidefault"
    except Exception as e:
        out = "other:" + repr(e)[:80]
    c.summary = lambda: dict(layout=job["layout"], outcome=out, states=[(n, k) for n, (k, _, _) in order.items()])
    c.reach("outcome-" + out.split(":")[0])
    valid = mk(conj(nfirst == 1, z3.BoolVal(ndefault <= 1) if c.symbolic else ndefault <= 1))
    c.prove("C12.inst accepted-iff-one-first-and-at-most-one-default", valid if out == "ok" else s_not(valid), info=dict(outcome=out, layout=job["layout"]))
    c.prove("C12.inst only-documented-errors", out in ("ok", "nofirst", "multifirst", "multidefault"), info=dict(outcome=out))
    if out == "nofirst":
        c.prove("C12.inst NoFirstStateError-means-no-first", mk(nfirst == 0))
    elif out == "multifirst":
        c.prove("C12.inst MultipleFirstStatesError-means-several", mk(nfirst >= 2))
    elif out == "multidefault":
        c.prove("C12.inst MultipleDefaultStatesError-means-several", ndefault >= 2)
    if out == "ok":
        mt.setup_tunables(sm, "m")
        c.reach("accepted")
        names = list(order)
        descs = [order[n][2] or "" for n in names]
        c.prove("C12.names state_names-bases-first-definition-order", list(sm.state_names) == names, info=dict(got=list(sm.state_names), expected=names))
        c.prove("C12.names descriptions-aligned", list(sm.state_descriptions) == descs, info=dict(got=list(sm.state_descriptions), expected=descs))
        # calling a state method directly is illegal
        try:
            getattr(sm, names[0])()
            ok = False
        except smm.IllegalCallError:
            ok = True
        c.prove("C12.call direct-call-raises-IllegalCallError", ok)
        # ... through the instance or through any class of the hierarchy that defines the name (also a shadowed
        # definition of a base class), with or without arguments
        bad = []
        for nm in names:
            forms = [("instance", lambda nm=nm: getattr(sm, nm)()), ("instance-args", lambda nm=nm: getattr(sm, nm)(0.0, 0.0, True))]
            for K in type(sm).__mro__:
                st = vars(K).get(nm)
                if st is not None and callable(st) and type(st).__name__ == "_State":
                    forms.append((f"class {K.__name__}", lambda st=st: st(sm)))
                    forms.append((f"class {K.__name__} kw", lambda st=st: st(sm, tm=0.0, initial_call=True)))
            for how, f in forms:
                c.reach("direct-call-forms")
                try:
                    f()
                    bad.append((nm, how, "returned"))
                except smm.IllegalCallError:
                    pass
                except Exception as e:
                    bad.append((nm, how, type(e).__name__))
        c.prove("C12.call direct-call-raises-IllegalCallError", not bad, info=dict(bad=bad[:4]))


BAD_SIGS = [
    ("def f(x): pass", "first-not-self"), ("def f(self, *args): pass", "varargs"),
    ("def f(*self): pass", "varargs-named-self"), ("def f(**self): pass", "kwargs-named-self"), ("def f(*, self): pass", "kwonly-named-self"),
    ("def f(self, tm, *, state_tm): pass", "kwonly-2"), ("def f(self, /, *tm): pass", "varargs-named-tm"), ("def f(self, **initial_call): pass", "kwargs-named-initial_call"),
    ("def f(self, **kw): pass", "kwargs"), ("def f(self, *, tm): pass", "kwonly"), ("def f(self, foo): pass", "bad-name"),
    ("def f(self, tm, bar): pass", "bad-name-2"), ("def f(self, speed=1.0): pass", "bad-name-default"),
    ("def f(self, tm, foo=None): pass", "bad-name-default-2"), ("def f(self, tm=0, state_tm=0, x=0): pass", "bad-name-default-3"), ("def f(self, state_tm, *a): pass", "varargs-2"), ("def f(tm, self): pass", "self-not-first"),
]
PARAMS = ("tm", "state_tm", "initial_call")
GOOD_SIGS = [p for n in range(4) for p in itertools.permutations(PARAMS, n)]


def path_defs(c, job):
    """Definition-time rejections (enumeration)."""
    import magicbot.state_machine as smm

    what = job["what"]
    c.summary = dict(what=what)
    decos = [("state", lambda f: smm.state(f)), ("state()", lambda f: smm.state(first=True)(f)),
             ("timed", lambda f: smm.timed_state(duration=1.0)(f)), ("default", lambda f: smm.default_state(f))]
    if what == "signatures":
        for src, tag in BAD_SIGS:
            for dn, deco in decos:
                ns = {}
                exec(src, ns)
                try:
                    deco(ns["f"])
                    ok = False
                except ValueError:
                    ok = True
                except Exception:
                    ok = False
                c.reach("bad-signature")
                c.prove("C12.def illegal-signature-rejected-at-definition", ok, info=dict(sig=src, decorator=dn))
        for p in GOOD_SIGS:
            for dn, deco in decos:
                ns = {}
                exec(f"def ok_state({', '.join(('self',) + p)}): pass", ns)
                try:
                    deco(ns["ok_state"])
                    ok = True
                except Exception:
                    ok = False
                c.prove("C12.def legal-signature-accepted", ok, info=dict(params=list(p), decorator=dn))
    elif what == "names":
        names = [n for n in dir(smm.StateMachine)]
        for n in names:
            if not n.isidentifier():
                continue
            ns = {}
            exec(f"def {n}(self): pass", ns)
            for dn, deco in decos:
                try:
                    deco(ns[n])
                    ok = False
                except smm.InvalidStateName:
                    ok = True
                except Exception:
                    ok = False
                c.reach("name-collision")
                c.prove("C12.def name-colliding-with-StateMachine-attribute-rejected", ok, info=dict(name=n, decorator=dn))
    elif what == "alias-owner":
        for dn, deco in decos:
            def mk():
                def st(self):
                    pass
                return deco(st)

            try:
                type("A", (smm.StateMachine,), {"other_name": mk()})
                ok = False
            except Exception as e:
                ok = isinstance(e, smm.InvalidStateName) or isinstance(e.__cause__, smm.InvalidStateName)
            c.reach("alias")
            c.prove("C12.def alias-rejected", ok, info=dict(decorator=dn))
            # alias names that merely contain / start with / end with the state's own name, both spellings of the
            # class body (the alias bound before or after the proper name)
            for alias in ("auto_st", "st_now", "xsty", "_st", "st_", "St", "s", "t"):
                for order in (("st", alias), (alias, "st")):
                    try:
                        same = mk()
                        type("A2", (smm.StateMachine,), {order[0]: same, order[1]: same})
                        ok = False
                    except Exception as e:
                        ok = isinstance(e, smm.InvalidStateName) or isinstance(e.__cause__, smm.InvalidStateName)
                    c.prove("C12.def alias-rejected", ok, info=dict(decorator=dn, alias=alias, order=order))
                try:
                    base = type("AB2", (smm.StateMachine,), {"st": mk()})
                    type("ASub2", (base,), {alias: base.st})
                    ok = False
                except Exception as e:
                    ok = isinstance(e, smm.InvalidStateName) or isinstance(e.__cause__, smm.InvalidStateName)
                c.prove("C12.def alias-rejected", ok, info=dict(decorator=dn, alias=alias, where="subclass"))
            # the alias made in a subclass of the class that defined the state
            try:
                base = type("AB", (smm.StateMachine,), {"st": mk()})
                type("ASub", (base,), {"other": base.st})
                ok = False
            except Exception as e:
                ok = isinstance(e, smm.InvalidStateName) or isinstance(e.__cause__, smm.InvalidStateName)
            c.prove("C12.def alias-rejected", ok, info=dict(decorator=dn, where="subclass"))
            try:
                type("NotSM", (), {"st": mk()})
                ok = False
            except Exception as e:
                ok = isinstance(e, TypeError) or isinstance(e.__cause__, TypeError)
            c.reach("owner")
            c.prove("C12.def state-outside-StateMachine-rejected", ok, info=dict(decorator=dn))
        try:
            class T(smm.StateMachine):
                @smm.timed_state()
                def t(self):
                    pass
            ok = False
        except TypeError:
            ok = True
        c.prove("C12.def timed_state-needs-duration", ok)


class C12(Spec):
    id = "C12"
    design_ref = "DESIGN.md §7 C12"
    real_capable = False
    clauses = ["C12.inst accepted", "C12.inst only", "C12.inst NoFirst", "C12.inst MultipleFirst", "C12.inst MultipleDefault", "C12.names state_names",
               "C12.names descriptions", "C12.call", "C12.def illegal", "C12.def legal", "C12.def name", "C12.def alias", "C12.def state-outside"]
    stubs = ["ntcore stub for the state_names / state_descriptions tunables"]
    assumptions = ["signature, alias, owner and name-collision sub-claims are exhaustive enumeration over finite sets (no solver needed)"]
    outside = ["more than n states per machine; layouts beyond single / linear / diamond / mix-in with one overriding redefinition"]

    def jobs(self, tier):
        n = 3 if tier == "quick" else 5
        j = [dict(kind="flags", layout=l, n=(n if l in ("single", "linear", "linear-override", "linear-shadow", "mixin-shadow", "mixin") else 4 if tier != "quick" else 3)) for l in LAYOUTS]
        if tier == "quick":
            j = [dict(kind="flags", layout=l, n=3) for l in ("single", "linear", "linear-override", "linear-shadow", "mixin-shadow", "mixin")] + \
                [dict(kind="flags", layout=l, n=4) for l in ("diamond", "diamond-override")]
        j += [dict(kind="defs", what=w) for w in ("signatures", "names", "alias-owner")]
        return j

    def bounds(self, tier):
        return dict(jobs=self.jobs(tier), flags="first / must_finish of every state symbolic; decorator kind and layout enumerated")

    def reach_required(self, tier):
        return ["outcome-ok", "outcome-nofirst", "outcome-multifirst", "outcome-multidefault", "accepted", "bases-instantiated-first", "bad-signature", "name-collision", "alias", "owner"]

    def path_fn(self, c, job):
        if job["kind"] == "flags":
            return path_flags(c, job)
        return path_defs(c, job)

    def twin(self, tier):
        def tfn(c, job):
            import magicbot.state_machine as smm

            cls, order = build(c, smm, "single", 2)
            try:
                cls()
                out = True
            except Exception:
                out = False
            c.prove("twin", out)

        return [dict(kind="twin")], tfn


SPEC = C12()
