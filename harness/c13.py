from harness.sm_specs import C13

SPEC = C13()
