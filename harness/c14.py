"""C14: autonomous mode selector: faithful discovery, one active mode, clean lifecycle.

The real AutonomousModeSelector scans a package written once per process to a temporary directory; the
modules read their flags from a registry at import time, so the real importlib / glob / inspect scan runs
while the flags (MODE_NAME present, DISABLED, DEFAULT, constructor raises, duplicated name, import raises,
FMS attached) stay symbolic.  Then a symbolic selection source and a symbolic sequence of
start/periodic/disable calls, or one run() period under the loop stubs.
"""
import atexit
import importlib
import os
import shutil
import sys
import tempfile
import types

from engine import symex as sx
from engine.runner import Spec

PKG = "verif_c14_autopkg"
LIB = "verif_c14_teamlib"
LAYOUT = {"m1": ["A", "B"], "m2": ["C"], "_m3": ["D"], "m4": ["B"], "m5": ["B"]}  # m4, m5 define more classes named B; _m3: underscore-named module file
_DIR = {}


def ensure_pkg():
    if "d" in _DIR:
        return _DIR["d"]
    d = tempfile.mkdtemp(prefix="verif_c14_", dir=os.environ.get("VERIF_TMP"))
    pkg = os.path.join(d, PKG)
    os.mkdir(pkg)
    open(os.path.join(pkg, "__init__.py"), "w").close()
    def class_src(cn, tag):
        # B objects are container-like and empty (falsy): a legal mode object
        falsy = "    def __len__(self): return 0\n" if cn == "B" else ""
        return f'''
class {cn}:
    if R.flag('{tag}.named'): MODE_NAME = R.name('{tag}')
    DISABLED = R.flag('{tag}.disabled')
    DEFAULT = R.flag('{tag}.default')
    def __init__(self):
        R.LOG.append(('init', '{tag}'))
        if R.flag('{tag}.ctorfail'): raise RuntimeError('ctor {tag}')
    def on_enable(self): R.LOG.append(('on_enable', '{tag}'))
    def on_iteration(self, t): R.LOG.append(('on_iteration', '{tag}', t))
    def on_disable(self): R.LOG.append(('on_disable', '{tag}'))
{falsy}'''

    for m, classes in LAYOUT.items():
        src = "import verif_c14_reg as R\n"
        src += f"if R.flag('{m}.importfail'): raise RuntimeError('import {m}')\n"
        for cn in classes:
            tag = cn if m not in ("m4", "m5") else cn + m[1]  # registry tag: unique per class object
            if m == "m2":
                # the mode class lives in a team library outside the package and is imported into the module
                with open(os.path.join(d, LIB + ".py"), "w") as f:
                    f.write("import verif_c14_reg as R\n" + class_src(cn, tag))
                src += f"from {LIB} import {cn}\n"
            else:
                src += class_src(cn, tag)
        src += "class Helper:\n    pass\n"
        with open(os.path.join(pkg, m + ".py"), "w") as f:
            f.write(src)
    sys.path.insert(0, d)
    _DIR["d"] = d
    atexit.register(shutil.rmtree, d, True)
    return d


class Reg:
    def __init__(self, c, modules):
        self.c = c
        self.flags = {}
        self.LOG = []
        self.modules = modules

    def flag(self, n):
        if n not in self.flags:
            mod = n.split(".")[0]
            if n.endswith(".importfail"):
                active = mod in self.modules
            else:
                active = True
            fixed = self.c_fixed.get(n)
            if fixed is not None:
                self.flags[n] = fixed
            else:
                self.flags[n] = bool(self.c.boolean(n)) if active else False
        return self.flags[n]

    def name(self, cn):
        if cn in ("B", "B4", "B5") and self.flag(cn + ".dupname"):
            return "A"
        return cn


class Env:
    ds_attached = True

    def __init__(self, c, cfg):
        self.c = c
        self.fms = c.boolean("fms")
        self.sd = {}
        self.t = c.real("t0", 0, 100)
        self.word = (True, True, False)
        self.k = 0
        self.N = cfg.get("N", 0)
        self.sel = None
        self.alarm = {}

    def fms_attached(self):
        return self.fms

    def sd_get_string(self, k, d):
        return self.sd.get(k, d)

    def now_s(self):
        self.t = self.t + self.c.real(f"dt{self.k}_{id(self) % 7}", 0, 10) if False else self.t
        return self.t

    def advance(self, i):
        self.t = self.t + self.c.real(f"dt{i}", 0, 10)

    def now_us(self):
        return 0

    def refresh(self):
        self.k += 1
        self.advance(100 + self.k)
        if self.k > self.N:
            self.word = (False, False, False)

    def observe(self, kind):
        pass

    def notifier_init(self):
        return (1, 0)

    def notifier_stop(self, h):
        pass

    def notifier_clean(self, h):
        pass

    def notifier_update(self, h, t):
        pass

    def notifier_wait(self, h):
        return 0


def purge():
    for k in [k for k in sys.modules if k == PKG or k.startswith(PKG + ".") or k == LIB]:
        del sys.modules[k]
    importlib.invalidate_caches()


def path(c, job):
    import robotpy_ext.autonomous.selector as sel
    import wpilib

    ensure_pkg()
    cfg = job["cfg"]
    modules = cfg["modules"]
    reg = Reg(c, modules)
    reg.c_fixed = dict(cfg.get("fixed", {}))
    m = sys.modules.get("verif_c14_reg") or types.ModuleType("verif_c14_reg")
    sys.modules["verif_c14_reg"] = m
    m.flag, m.name, m.LOG = reg.flag, reg.name, reg.LOG
    env = Env(c, cfg)
    wpilib.ENV = env
    wpilib.SmartDashboard.data.clear()
    purge()
    # only the selected modules exist in the package: hide the others by renaming is expensive; instead the
    # glob is narrowed by pointing the package __path__-independent scan at a per-layout directory
    pkgname = PKG if not cfg.get("missing") else "verif_c14_no_such_pkg"
    _select_modules(modules)
    # the flags of every module file that is present are decided here, not when (and if) the scan imports the
    # module: a module the scan skips must not disappear from the expectation as well
    tags0 = {mn: [cn if mn not in ("m4", "m5") else cn + mn[1] for cn in LAYOUT[mn]] for mn in LAYOUT}
    for mn in modules:
        if not reg.flag(f"{mn}.importfail"):
            for cn in tags0[mn]:
                if reg.flag(f"{cn}.named"):
                    reg.flag(f"{cn}.disabled")
                    reg.flag(f"{cn}.default")
    try:
        s = sel.AutonomousModeSelector(pkgname)
        out = "ok"
    except RuntimeError as e:
        out = "raised"
        s = None
    except Exception as e:
        out = "other:" + repr(e)[:80]
        s = None
    fms = bool(env.fms)
    F = reg.flags
    tags = {mn: [cn if mn not in ("m4", "m5") else cn + mn[1] for cn in LAYOUT[mn]] for mn in LAYOUT}
    classes = [cn for mn in modules for cn in tags[mn]]
    imp_fail = [mn for mn in modules if F.get(f"{mn}.importfail")]
    loaded = [cn for mn in modules if mn not in imp_fail for cn in tags[mn]]
    cand = [cn for cn in loaded if F.get(f"{cn}.named") and not F.get(f"{cn}.disabled")]
    healthy = [cn for cn in cand if not F.get(f"{cn}.ctorfail")]
    names = {cn: reg.name(cn) for cn in healthy}
    dup = len(set(names.values())) < len(names)
    ndefault = sum(1 for cn in healthy if F.get(f"{cn}.default"))
    ctor_fail = [cn for cn in cand if F.get(f"{cn}.ctorfail")]
    faulty = bool(imp_fail or ctor_fail or dup or ndefault > 1)
    inits = [e[1] for e in reg.LOG if e[0] == "init"]
    c.summary = lambda: dict(out=out, fms=fms, flags={k: v for k, v in F.items() if v}, inits=inits)
    if cfg.get("missing"):
        c.reach("package-missing")
        c.prove("C14.scan missing-package-tolerated", out == "ok" and s.modes == {} and list(s.chooser.opts) == ["None"] and s.chooser.default == "None")
        return
    if faulty and not fms:
        c.reach("faulty-no-fms")
        c.prove("C14.scan faulty-package-raises-without-fms", out == "raised", info=dict(out=out, imp_fail=imp_fail, ctor_fail=ctor_fail, dup=dup, ndefault=ndefault))
        return
    c.reach("tolerated-with-fms" if faulty else "healthy-package")
    c.prove("C14.scan constructs", out == "ok", info=dict(out=out, fms=fms, faulty=faulty))
    if out != "ok":
        return
    # exactly the candidate classes are instantiated, once each
    c.prove("C14.scan instantiates-exactly-the-named-enabled-classes-once", sorted(inits) == sorted(cand), info=dict(inits=inits, expected=cand))
    insts = list(s.modes.values())
    c.prove("C14.scan one-instance-per-healthy-class", sorted(type(i).__name__ for i in insts) == sorted(h.rstrip("45") for h in healthy),
            info=dict(got=[type(i).__name__ for i in insts], healthy=healthy))
    offered = s.chooser.opts
    c.prove("C14.offer none-choice", "None" in offered and offered["None"] is None)
    c.prove("C14.offer every-healthy-mode-offered", all(any(v is i for v in offered.values()) for i in insts) and len(offered) == len(insts) + 1)
    if not dup:
        c.prove("C14.offer by-mode-name", set(offered) == set(names.values()) | {"None"}, info=dict(offered=sorted(offered)))
        c.prove("C14.offer auto-list", sorted(wpilib.SmartDashboard.data.get("Auto List", [])) == sorted(names.values()))
    if ndefault == 1:
        c.reach("one-default")
        dn = [names[cn] for cn in healthy if F.get(f"{cn}.default")][0]
        if not dup:
            c.prove("C14.offer default-preselected", s.chooser.default == dn, info=dict(got=s.chooser.default, expected=dn))
    elif ndefault == 0:
        c.prove("C14.offer none-preselected-without-default", s.chooser.default == "None", info=dict(got=s.chooser.default))
    if dup or not cfg.get("lifecycle"):
        return
    # ---- selection + lifecycle -------------------------------------------------------
    keys = sorted(names.values())
    src = c.choose("dashboard", 4)  # absent / names a mode / names no mode / the literal string "None"
    choose_keys = ["<default>"] + keys + ["None"]
    ck = choose_keys[c.choose("chooser", len(choose_keys))]
    if ck != "<default>":
        s.chooser.selected = ck
    chosen_key = s.chooser.default if ck == "<default>" else ck
    if src == 1 and keys:
        dk = keys[c.choose("dashmode", len(keys))]
        env.sd["Auto Selector"] = dk
        chosen_key = dk
        c.reach("dashboard-selects")
    elif src == 2:
        env.sd["Auto Selector"] = "no such mode"
    elif src == 3:
        env.sd["Auto Selector"] = "None"  # not the name of a mode: the chooser selection decides
    chosen = None if chosen_key == "None" else [cn for cn in healthy if names[cn] == chosen_key][0]
    del reg.LOG[:]
    exp = []
    if cfg["lifecycle"] == "run":
        env.N = cfg["N"]
        n_it = cfg["N"]
        # optionally disable() is called from the per-iteration function in the middle of the period
        # or the robot program is told to end (endCompetition) while run() is looping
        ev = c.choose("disable_at", 2 * n_it + 1)  # 0: never
        dis_at = ev if ev <= n_it else 0
        end_at = ev - n_it if ev > n_it else 0
        cnt = [0]

        def iter_fn():
            cnt[0] += 1
            if cnt[0] == dis_at:
                c.reach("disable-inside-run")
                s.disable()
            if cnt[0] == end_at:
                c.reach("end-competition-inside-run")
                s.endCompetition()

        s.run(0.02, iter_fn)
        if chosen:
            k = dis_at or end_at or n_it
            exp = [("on_enable", chosen)] + [("on_iteration", chosen)] * k + [("on_disable", chosen)]
        c.prove("C14.life run-stops-iterating-after-endCompetition", cnt[0] == (end_at or n_it), info=dict(iterations=cnt[0], end_at=end_at))
        c.reach("run-period")
    else:
        active = False
        started = False

        def pick(i):
            """(re-)select on the chooser before a start(); the dashboard string, when it names a mode, wins."""
            # (only where the string named a mode so far: otherwise nothing can have been remembered)
            dchg = c.choose(f"dashboard{i}", 2) if env.sd.get("Auto Selector") in keys else 0  # keep / changed
            if dchg == 1:
                if i % 2:
                    env.sd.pop("Auto Selector", None)
                else:
                    env.sd["Auto Selector"] = "no such mode"
            ck2 = choose_keys[c.choose(f"chooser{i}", len(choose_keys))]
            s.chooser.selected = None if ck2 == "<default>" else ck2
            key = s.chooser.default if ck2 == "<default>" else ck2
            if env.sd.get("Auto Selector") in keys:
                key = env.sd["Auto Selector"]
            return None if key == "None" else [cn for cn in healthy if names[cn] == key][0]

        for i in range(cfg["K"]):
            env.advance(i)
            menu = ["periodic", "disable", "start"] if active else (["start", "disable"] + (["periodic"] if started else []))
            op = menu[c.choose(f"op{i}", len(menu))]
            if op == "start":
                if started:
                    c.reach("second-period")
                    if active:
                        c.reach("start-without-disable")
                    chosen = pick(i)
                period_t0 = env.t
                s.start()
                active = started = True
                if chosen:
                    exp.append(("on_enable", chosen))
            elif op == "periodic":
                n_before = len(reg.LOG)
                s.periodic()
                if chosen and active:
                    exp.append(("on_iteration", chosen))
                    for e in reg.LOG[n_before:]:
                        if e[0] == "on_iteration":
                            c.reach("elapsed-time-checked")
                            c.prove("C14.life elapsed-time-is-time-since-period-start", sx.s_eq(e[2], env.t - period_t0), info=dict(step=i))
                if not active:
                    c.reach("periodic-after-disable")
            else:
                s.disable()
                if chosen and active:
                    exp.append(("on_disable", chosen))
                active = False
    got = [(e[0], e[1]) for e in reg.LOG]
    if chosen:
        c.reach("mode-chosen")
    else:
        c.reach("none-chosen")
    c.prove("C14.life exact-callback-sequence-to-the-chosen-mode-only", got == exp, info=dict(got=got, expected=exp, chosen=chosen))
    prev = None
    for e in reg.LOG:
        if e[0] == "on_iteration":
            c.prove("C14.life elapsed-time-non-negative", e[2] >= 0)
            if prev is not None:
                c.reach("two-iterations")
                c.prove("C14.life elapsed-time-non-decreasing", e[2] >= prev)
            prev = e[2]
        elif e[0] == "on_enable":
            prev = None


_CUR = {}


def _select_modules(modules):
    """Make exactly ``modules`` visible to the glob scan (files of the other modules are renamed away)."""
    d = os.path.join(ensure_pkg(), PKG)
    for mn in LAYOUT:
        on, off = os.path.join(d, mn + ".py"), os.path.join(d, mn + ".py_off")
        want = mn in modules
        if want and not os.path.exists(on):
            os.rename(off, on)
        elif not want and os.path.exists(on):
            os.rename(on, off)


def mkjob(modules, lifecycle=None, K=0, N=0, fixed=None, missing=False):
    return dict(cfg=dict(modules=modules, lifecycle=lifecycle, K=K, N=N, fixed=fixed or {}, missing=missing))


HEALTHY = {f"{cn}.{k}": v for cn in ("A", "B", "C", "D", "B4", "B5") for k, v in (("named", True), ("disabled", False), ("ctorfail", False))}
HEALTHY.update({"B.dupname": False, "B4.dupname": False, "B5.dupname": False, "m5.importfail": False, "m1.importfail": False, "m2.importfail": False, "_m3.importfail": False, "m4.importfail": False})


class C14(Spec):
    id = "C14"
    design_ref = "DESIGN.md §7 C14"
    real_capable = False
    chunk = 60
    clauses = ["C14.scan faulty", "C14.scan constructs", "C14.scan instantiates", "C14.scan one-instance", "C14.scan missing", "C14.offer none-choice",
               "C14.offer every", "C14.offer by-mode-name", "C14.offer default", "C14.offer none-preselected", "C14.life exact", "C14.life elapsed-time-non-decreasing"]
    stubs = ["wpilib.SendableChooser: returns the selected option, else the default option", "SmartDashboard.getString returns the stored string or the default",
             "DriverStation.isFMSAttached: symbolic, constant per run", "wpilib.Timer on a symbolic non-decreasing clock", "loop stubs (refreshData / notifier) for run()"]
    assumptions = ["one worker process owns its temporary package directory (module files are toggled per job)"]
    outside = ["classes re-exported between modules of the package (a class imported from outside the package into one module is covered: C)", "non-.py modules / namespace packages", "periodic() before the first start()"]

    # each job toggles files in the per-process package directory: jobs must not interleave inside one process
    def jobs(self, tier):
        if tier == "quick":
            return [mkjob(["m1"]), mkjob(["m1", "m2"], fixed={"A.disabled": False, "C.disabled": False}),
                    # three classes that may all claim the name "A", two of them sharing a class name
                    mkjob(["m1", "m4", "m5"], fixed={"A.named": True, "A.disabled": False, "A.ctorfail": False, "B.named": True, "B4.named": True, "B5.named": True,
                                                     "B.ctorfail": False, "B4.ctorfail": False, "B5.ctorfail": False, "B.disabled": False, "B4.disabled": False,
                                                     "m1.importfail": False, "m4.importfail": False, "m5.importfail": False}),
                    mkjob(["m1", "m2"], lifecycle="calls", K=4, fixed=HEALTHY),
                    mkjob(["m1"], lifecycle="run", N=3, fixed=HEALTHY), mkjob([], missing=True),
                    # a mode module whose file name starts with an underscore is a module of the package like any other
                    mkjob(["m1", "_m3"], fixed={"A.ctorfail": False, "A.disabled": False, "m1.importfail": False, "B.named": False, "B.disabled": False,
                                                "B.default": False, "B.ctorfail": False, "B.dupname": False})]
        return [mkjob(["m1", "m2"]), mkjob(["m1", "m2", "_m3"], fixed={"A.named": True, "A.disabled": False, "A.ctorfail": False, "D.disabled": False}),
                mkjob(["m1", "m2"], lifecycle="calls", K=4, fixed=HEALTHY), mkjob(["m1"], lifecycle="calls", K=5, fixed=HEALTHY), mkjob(["m1", "m2"], lifecycle="calls", K=3, fixed={k: v for k, v in HEALTHY.items() if not k.startswith("B.")}),
                mkjob(["m1", "m4", "m5"], fixed={"A.named": True, "A.disabled": False, "A.ctorfail": False, "B.named": True, "B4.named": True, "B5.named": True,
                                                 "B.ctorfail": False, "B4.ctorfail": False, "B5.ctorfail": False, "m1.importfail": False, "m4.importfail": False, "m5.importfail": False}),
                mkjob(["m1", "m2"], lifecycle="run", N=4, fixed=HEALTHY), mkjob([], missing=True)]

    def bounds(self, tier):
        return dict(jobs=self.jobs(tier), layout=LAYOUT, flags="per class: MODE_NAME present, DISABLED, DEFAULT, constructor raises; B may duplicate A's name; per module: import raises; FMS")

    def reach_required(self, tier):
        return ["package-missing", "faulty-no-fms", "tolerated-with-fms", "healthy-package", "one-default", "dashboard-selects", "run-period",
                "periodic-after-disable", "mode-chosen", "none-chosen", "two-iterations", "second-period", "start-without-disable", "disable-inside-run", "end-competition-inside-run", "elapsed-time-checked"]

    def path_fn(self, c, job):
        path(c, job)

    def twin(self, tier):
        def tfn(c, job):
            path(c, job)
            reg = sys.modules["verif_c14_reg"].flag.__self__
            # falsified clause: "no class ever has a failing constructor"
            c.prove("twin", not any(v for k, v in reg.flags.items() if k.endswith(".ctorfail")))

        return [mkjob(["m1"])], tfn


SPEC = C14()
