"""C15: StatefulAutonomous runs each state for its duration, in every autonomous period.

Real ``StatefulAutonomous`` (robotpy_ext.autonomous.stateful_autonomous) on generated mode classes; the tm
sequence of every period, the dashboard durations, the in-state next_state()/done() script and the number
of periods are symbolic.
"""
import itertools

from engine import symex as sx
from engine import world
from engine.runner import Spec
from engine.symex import s_eq, s_not

PERMS = list(itertools.permutations(("tm", "state_tm", "initial_call")))

SHAPES = {
    # chain: untimed first -> timed -> untimed
    "chain": [("s0", None, None, True), ("s1", 1.0, "s2", False), ("s2", None, None, False)],
    # loop of two timed states
    "loop": [("a", 0.5, "b", True), ("b", 0.25, "a", False)],
    # timed chain ending without successor
    "tchain": [("a", 0.5, "b", True), ("b", 0.25, "c", False), ("c", 0.125, None, False)],
    # branch: first state chooses; both arms timed
    "branch": [("s0", None, None, True), ("l", 0.5, "e", False), ("r", 0.25, "e", False), ("e", None, None, False)],
    "inherit": [("s0", None, None, True), ("s1", 1.0, "s2", False), ("s2", 0.5, None, False)],
    # integer literals in the decorators (the dashboard still holds doubles), and a timed state whose next_state is itself
    "intdur": [("a", 1, "b", True), ("b", 2, None, False)],
    "selfloop": [("p", 0.5, "p", True)],
    # states made by applying the decorator to a helper function: the attribute name differs from the function's name
    "aliased": [("hold", 0.5, "rel", True), ("rel", 0.25, None, False)],
}
FNAMES = {"aliased": {"hold": "hold_impl", "rel": "wrapper"}}
# "inherit": the chain's states live in a base class, the concrete mode only adds the last one
TARGETS = {"aliased": ["rel", "hold"], "intdur": ["a", "b"], "selfloop": ["p"], "inherit": ["s1", "s2"], "chain": ["s1", "s2"], "loop": ["a", "b"], "tchain": ["b", "a"], "branch": ["l", "r"]}
_ID = [0]


class Call:
    def __init__(self, **kw):
        self.__dict__.update(kw)


class Rec:
    def __init__(self, c, cfg, shape):
        self.c = c
        self.cfg = cfg
        self.shape = shape
        self.budget = cfg["act_budget"]
        self.iters = []  # per on_iteration: dict(period, tm, calls)
        self.n = 0

    def call(self, mode, name, tm, state_tm, ic):
        self.n += 1
        x = Call(name=name, tm=tm, state_tm=state_tm, ic=ic, action="none", target=None)
        self.iters[-1]["calls"].append(x)
        if self.budget <= 0:
            return
        tg = TARGETS[self.shape]
        menu = ["none", "done"] + [("next_state", t) for t in tg]
        a = menu[self.c.choose(f"act{self.n}", len(menu))]
        if a == "none":
            return
        self.budget -= 1
        if a == "done":
            x.action = "done"
            mode.done()
        else:
            x.action, x.target = a
            mode.next_state(a[1])


def build_mode(shape, variant, H, name):
    import robotpy_ext.autonomous.stateful_autonomous as sa

    ns = dict(state=sa.state, timed_state=sa.timed_state, Base=sa.StatefulAutonomous, H=H)
    src = f"class M(Base):\n    MODE_NAME = {name!r}\n"
    if shape == "inherit":
        src = f"class Parent(Base):\n    pass\nclass M(Parent):\n    MODE_NAME = {name!r}\n"
    for i, (sn, dur, nxt, first) in enumerate(SHAPES[shape]):
        perm = PERMS[(variant + i) % 6]
        if dur is None:
            deco = "@state(first=True)" if first else "@state"
        else:
            deco = f"@timed_state(duration={dur!r}, next_state={nxt!r}, first={first!r})"
        fdef = f"    {deco}\n    def {sn}(self, {', '.join(perm)}):\n        H.call(self, {sn!r}, tm, state_tm, initial_call)\n"
        if shape in FNAMES:
            fn = FNAMES[shape][sn]
            fdef = (f"    def {fn}(self, {', '.join(perm)}):\n        H.call(self, {sn!r}, tm, state_tm, initial_call)\n"
                    f"    {sn} = {deco[1:]}({fn})\n")
        if shape == "inherit" and i < 2:
            # defined on the parent class
            src = src.replace("class Parent(Base):\n    pass\n", "class Parent(Base):\n" + fdef) if "    pass\n" in src else src.replace("class M(Parent):", fdef + "class M(Parent):")
        else:
            src += fdef
    # a sibling mode class using the same state names (modes of one robot often do): nothing is shared between classes
    sib = f"class Sib(Base):\n    MODE_NAME = {name + '_sibling'!r}\n"
    for i, (sn, dur, nxt, first) in enumerate(SHAPES[shape]):
        deco = ("@state(first=True)" if first else "@state") if dur is None else f"@timed_state(duration={(dur or 0) + 3!r}, next_state={nxt!r}, first={first!r})"
        sib += f"    {deco}\n    def {FNAMES.get(shape, {}).get(sn, sn) if False else sn}(self, tm, state_tm, initial_call):\n        H.foreign.append(({sn!r}, type(self).__name__))\n"
    exec(compile(src + sib, f"<mode {shape}>", "exec"), ns)
    ns["M"].Sib = ns["Sib"]
    return ns["M"]


def run(c, job):
    import ntcore

    cfg = job["cfg"]
    shape = job["shape"]
    if world.is_sym():
        sx.install_shadows()
        import wpilib

        ntcore.reset()

        class E:
            ds_attached = True

            def fms_attached(self):
                return False

        wpilib.ENV = E()
    _ID[0] += 1
    name = f"M{_ID[0]}" if not world.is_sym() else "M"
    H = Rec(c, cfg, shape)
    M = build_mode(shape, job.get("variant", 0), H, name)
    H.foreign = []
    sib_when = c.choose("sibling_mode", 3) if cfg.get("sibling") else 0  # none / built before / built after the mode under test
    try:
        if sib_when == 1:
            M.Sib()
        mode = M()
        if sib_when == 2:
            M.Sib()
        if sib_when:
            c.reach("sibling-mode")
    except Exception as e:
        c.prove("C15.build legal-mode-definition-constructs", False, info=dict(shape=shape, exc=repr(e)[:160]))
        H.meta, H.periods = {}, []
        c.summary = dict(shape=shape, construct_failed=repr(e)[:100])
        return H
    table = ntcore.NetworkTableInstance.getDefault().getTable("SmartDashboard")
    meta = {sn: dict(dur=dur, next=nxt, first=first) for sn, dur, nxt, first in SHAPES[shape]}
    H.meta = meta
    H.periods = []
    P = cfg["periods"]
    for p in range(P):
        durs = {}
        for sn, m in meta.items():
            if m["dur"] is not None:
                if p == 0 and not cfg.get("edit_first", True):
                    durs[sn] = m["dur"]
                else:
                    d = c.real(f"dur{p}_{sn}", 0, 100)
                    table.putNumber(f"{name}\\{FNAMES.get(shape, {}).get(sn, sn)}_duration", d)
                    durs[sn] = d
        mode.on_enable()
        H.periods.append(durs)
        tm = None
        nit = cfg["K"] if p == 0 else cfg.get("K_later", cfg["K"])
        for i in range(nit):
            if tm is None:
                tm = c.real(f"tm{p}_0", 0, 100)
            else:
                d = c.real(f"dtm{p}_{i}", 0, 100)
                c.assume(d > 0)
                tm = tm + d
            H.iters.append(dict(period=p, tm=tm, calls=[], raised=None))
            if cfg.get("edit_mid") and i == 1:
                # the dashboard values are edited while the period is running: they count from the next on_enable() on
                for sn, m in meta.items():
                    if m["dur"] is not None and c.choose(f"mid{p}_{sn}", 2):
                        table.putNumber(f"{name}\\{FNAMES.get(shape, {}).get(sn, sn)}_duration", c.real(f"middur{p}_{sn}", 0, 100))
                        c.reach("dashboard-edit-inside-period")
            try:
                mode.on_iteration(tm)
            except Exception as e:
                H.iters[-1]["raised"] = repr(e)[:200]
        mode.on_disable()
    c.summary = lambda: dict(shape=shape, trace=[[it["period"], sx.concretize_desc(it["tm"]),
                                                  [[x.name, sx.concretize_desc(x.tm), sx.concretize_desc(x.state_tm), x.ic, x.action, x.target]
                                                   for x in it["calls"]]] for it in H.iters])
    return H


def first_of(meta):
    return [n for n, m in meta.items() if m["first"]][0]


def clauses(c, H):
    meta = H.meta
    P = "C15"
    T = None
    cur_period = None
    for it in H.iters:
        p = it["period"]
        tag = "p1" if p == 0 else "later"
        if it["raised"]:
            c.prove(f"{P}.no-exception", False, info=dict(exc=it["raised"], period=p))
            return
        if p != cur_period:
            cur_period = p
            T = dict(state=first_of(meta), entered=False, s=None, d=None)  # on_enable restarts at the first state
            c.reach(f"period-{tag}")
        durs = H.periods[p]
        tm = it["tm"]
        calls = it["calls"]
        c.prove(f"{P}.one at-most-one-state-per-iteration", len(calls) <= 1, info=dict(n=len(calls)))
        x0 = calls[0] if calls else None
        if x0 is not None:
            c.prove(f"{P}.args tm-is-the-iteration-time", s_eq(x0.tm, tm), info=dict(state=x0.name, period=p))
            c.prove(f"{P}.args state_tm-nonneg", x0.state_tm >= 0, info=dict(state=x0.name, period=p))
        if T is None:
            # finished (last state expired / done()): nothing runs until the next on_enable
            c.reach(f"finished-{tag}")
            c.prove(f"{P}.finish nothing-runs-until-next-enable", x0 is None, info=dict(period=p, got=x0.name if x0 else None))
            continue
        st = T["state"]
        if not T["entered"]:
            # entered (on_enable / next_state): runs now whatever tm is, initial_call True, clock starts now
            c.reach(f"entered-runs-{tag}")
            ok = x0 is not None and x0.name == st
            c.prove(f"{P}.once entered-state-runs-at-least-once", ok, info=dict(period=p, expected=st, got=x0.name if x0 else None))
            if not ok:
                T = None if x0 is None else _after(meta, durs, x0, tm)
                continue
            c.prove(f"{P}.ic initial-on-first-call", x0.ic, info=dict(state=st, period=p))
            c.prove(f"{P}.args state_tm-from-entry", s_eq(x0.state_tm, 0), info=dict(state=st, period=p))
            T = _after(meta, durs, x0, tm)
            continue
        s, d = T["s"], T["d"]
        if d is None:
            c.reach("untimed-continues")
            ok = x0 is not None and x0.name == st
            c.prove(f"{P}.run untimed-continues", ok, info=dict(period=p, expected=st))
            if not ok:
                T = None
                continue
            c.prove(f"{P}.ic consecutive-not-initial", s_not(x0.ic), info=dict(state=st, period=p))
            c.prove(f"{P}.args state_tm-from-entry", s_eq(x0.state_tm, tm - s), info=dict(state=st))
            T = _after(meta, durs, x0, tm, s, d)
            continue
        expired = tm > s + d
        nxt = meta[st]["next"]
        c.reach("timed-pair")
        if x0 is not None and x0.name == st and not (nxt == st and x0.ic is True):
            c.reach("timed-stays")
            c.prove(f"{P}.run hands-over-after-expiry", s_not(expired), info=dict(state=st, period=p))
            c.prove(f"{P}.ic consecutive-not-initial", s_not(x0.ic), info=dict(state=st, period=p))
            c.prove(f"{P}.args state_tm-from-entry", s_eq(x0.state_tm, tm - s), info=dict(state=st))
            T = _after(meta, durs, x0, tm, s, d)
            continue
        c.reach(f"timed-expired-{tag}")
        c.prove(f"{P}.run stays-until-expiry", expired, info=dict(state=st, period=p, got=x0.name if x0 else None))
        if nxt is None:
            c.reach("last-state-expired")
            c.prove(f"{P}.finish nothing-runs-after-last-state", x0 is None, info=dict(period=p, got=x0.name if x0 else None))
            T = None
            continue
        ok = x0 is not None and x0.name == nxt
        c.prove(f"{P}.run successor-runs", ok, info=dict(period=p, expected=nxt, got=x0.name if x0 else None))
        if not ok:
            T = None
            continue
        c.prove(f"{P}.ic initial-on-first-call", x0.ic, info=dict(state=nxt, period=p))
        c.prove(f"{P}.run successor-clock-starts-at-expiry", s_eq(x0.tm - x0.state_tm, s + d), info=dict(state=nxt, period=p))
        T = _after(meta, durs, x0, tm, s + d, durs.get(nxt))


def _after(meta, durs, x0, tm, s=None, d="fresh"):
    """Tracker after an iteration in which x0 ran (entry start s, duration d of x0's entry)."""
    if x0.action == "done":
        return None
    if x0.action == "next_state":
        return dict(state=x0.target, entered=False, s=None, d=None)
    if s is None:
        s = tm
    if d == "fresh":
        d = durs.get(x0.name)
    return dict(state=x0.name, entered=True, s=s, d=d)


def mkjob(shape, K, budget, periods=1, variant=0, K_later=None, sibling=False, edit_mid=False):
    return dict(shape=shape, variant=variant, cfg=dict(K=K, act_budget=budget, periods=periods, K_later=K_later or K, sibling=sibling, edit_mid=edit_mid))


class C15(Spec):
    id = "C15"
    design_ref = "DESIGN.md §7 C15"
    real_capable = True
    chunk = 100
    clauses = ["C15.once", "C15.ic initial", "C15.ic consecutive", "C15.args tm", "C15.args state_tm-nonneg", "C15.args state_tm-from",
               "C15.run hands", "C15.run stays", "C15.run successor", "C15.finish"]
    stubs = ["ntcore stub (SYM world) for the SmartDashboard table; real ntcore in the REAL-world replays", "DriverStation.getBatteryVoltage constant"]
    assumptions = ["floats modelled as reals", "tm strictly increasing within a period (tm increments in (0,100])", "mode shapes: chain, loop, tchain, branch"]
    outside = ["two instances of one mode class alive at once", "register_sd_var variables other than durations", "more than K iterations per period / more than 3 periods"]

    def jobs(self, tier):
        if tier == "quick":
            return [mkjob("intdur", 5, 0, variant=1), mkjob("selfloop", 6, 1, variant=2), mkjob("selfloop", 3, 0, periods=2), mkjob("inherit", 5, 1, variant=2), mkjob("inherit", 3, 1, periods=2, variant=3), mkjob("chain", 5, 2), mkjob("loop", 5, 1), mkjob("tchain", 5, 1), mkjob("branch", 4, 2),
                    mkjob("chain", 3, 2, periods=2, variant=1), mkjob("loop", 3, 1, periods=2, variant=2),
                    mkjob("tchain", 3, 1, periods=2, variant=3), mkjob("aliased", 5, 1, variant=1), mkjob("aliased", 3, 0, periods=2, variant=2),
                    mkjob("chain", 4, 1, sibling=True, variant=2), mkjob("tchain", 4, 0, sibling=True), mkjob("tchain", 4, 0, edit_mid=True, variant=1), mkjob("loop", 3, 0, periods=2, edit_mid=True)]
        return [mkjob("intdur", 7, 1, variant=1), mkjob("intdur", 4, 1, periods=2), mkjob("selfloop", 8, 2, variant=2), mkjob("selfloop", 4, 1, periods=3),
                mkjob("inherit", 7, 2, variant=1), mkjob("inherit", 4, 2, periods=3, variant=4), mkjob("chain", 7, 2, variant=1), mkjob("loop", 8, 2, variant=2), mkjob("tchain", 8, 1, variant=3), mkjob("branch", 6, 2, variant=4),
                mkjob("chain", 4, 2, periods=3, variant=5), mkjob("loop", 4, 2, periods=2, variant=0), mkjob("tchain", 4, 2, periods=3, variant=1),
                mkjob("branch", 4, 2, periods=2, variant=2), mkjob("aliased", 7, 2, variant=1), mkjob("aliased", 4, 1, periods=3, variant=2),
                mkjob("chain", 6, 2, sibling=True, variant=2), mkjob("tchain", 6, 1, sibling=True), mkjob("tchain", 6, 1, edit_mid=True, variant=1), mkjob("loop", 4, 1, periods=2, edit_mid=True)]

    def bounds(self, tier):
        return dict(jobs=[dict(shape=j["shape"], **j["cfg"]) for j in self.jobs(tier)], durations="symbolic reals in [0,100] written to the dashboard before every on_enable",
                    tm="first tm of a period in [0,100], strictly increasing afterwards")

    def reach_required(self, tier):
        return ["period-p1", "period-later", "entered-runs-p1", "entered-runs-later", "timed-stays", "timed-expired-p1", "timed-expired-later",
                "last-state-expired", "finished-p1", "untimed-continues", "sibling-mode", "dashboard-edit-inside-period"]

    def path_fn(self, c, job):
        H = run(c, job)
        clauses(c, H)
        if job["cfg"].get("sibling"):
            c.prove("C15.run only-the-mode's-own-states-run", not H.foreign, info=dict(foreign=H.foreign[:4]))

    def trigger(self, viol, job):
        info = viol.get("info") or {}
        return dict(shape=job.get("shape"), period=info.get("period"))

    def twin(self, tier):
        def tfn(c, job):
            H = run(c, job)
            for it in H.iters:
                for x in it["calls"]:
                    c.prove("twin", s_eq(x.state_tm, 0))

        return [mkjob("loop", 3, 0)], tfn


SPEC = C15()
