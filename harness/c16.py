"""C16: NotifierDelay keeps the loop on a fixed time grid without drift.

Real ``NotifierDelay`` over the hal notifier stub; period, creation time and every loop-body duration
are symbolic.  ``int()`` inside precise_delay is shadowed by a truncation on terms (no source edit).
"""
import itertools

from engine import symex as sx
from engine.runner import Spec
from engine.symex import s_eq


class Env:
    """HAL notifier stub.  Handles are small integers; a cleaned handle number is handed out again by the next
    initializeNotifier() (as the real HAL does); calls on a handle that is not live return at once."""
    ds_attached = True

    def __init__(self, c, t0=None):
        self.c = c
        self.t = c.integer("t0", 0, 10 ** 10) if t0 is None else t0  # beyond 2**32 us (71.6 min of FPGA time)
        self.alarm = None
        self.stopped = 0
        self.cleaned = 0
        self.waits = 0
        self.inits = 0
        self.updates = []
        self.free_during_wait = None
        self.base = next(_HANDLES) * 64
        self.live = set()
        self.pool = []
        self.nalloc = 0
        self.handle = None
        self.ts_offset = None

    def now_us(self):
        return self.t

    def now_s(self):
        return self.t / 1e6

    def time_source_us(self):
        # RobotController.getTime(): the FPGA clock unless the program installed its own time source (any offset)
        if self.ts_offset is None:
            self.ts_offset = self.c.integer("time_source_offset", 0, 10 ** 9)
        return self.t + self.ts_offset

    # a NotifierDelay left over from an earlier explored path may be finalised (``__del__`` -> ``free()``) while this
    # path runs: its handle does not belong to this environment and is ignored
    def _mine(self, h):
        return isinstance(h, int) and self.base <= h < self.base + 64

    def notifier_init(self):
        self.inits += 1
        if self.pool:
            h = self.pool.pop(0)
        else:
            h = self.base + self.nalloc
            self.nalloc += 1
        self.live.add(h)
        self.handle = h
        return (h, 0)

    def notifier_update(self, h, t):
        if h is None:
            raise TypeError("updateNotifierAlarm(): incompatible function arguments (handle is None)")
        if h not in self.live:
            return
        self.alarm = t
        self.updates.append(t)

    def notifier_stop(self, h):
        if self._mine(h):
            self.stopped += 1

    def notifier_clean(self, h):
        if self._mine(h):
            self.cleaned += 1
            if h in self.live:
                self.live.discard(h)
                self.pool.append(h)

    def notifier_wait(self, h):
        if h is None:
            raise TypeError("waitForNotifierAlarm(): incompatible function arguments (handle is None)")
        self.waits += 1
        if h not in self.live:
            return 0
        if self.free_during_wait is not None:
            # another thread frees the notifier while this one is blocked: the HAL wakes the waiter (time 0)
            nd, self.free_during_wait = self.free_during_wait, None
            nd.free()
            return 0
        a = self.alarm
        if a > self.t:
            self.t = a
        return self.t

    def fms_attached(self):
        return False


_HANDLES = itertools.count(7)


def path(c, job):
    import robotpy_ext.misc.precise_delay as pd
    import wpilib

    sx.install_shadows()
    env = Env(c)
    wpilib.ENV = env
    kind = job["kind"]
    if kind == "reject":
        P = c.real("P", 0, 1)
        c.assume(P < 0.001)
        import sys

        hook, sys.unraisablehook = sys.unraisablehook, (lambda *a: None)  # __del__ of the half-built object complains
        try:
            pd.NotifierDelay(P)
            ok = False
        except ValueError:
            ok = True
        finally:
            import gc

            gc.collect()
            sys.unraisablehook = hook
        c.reach("reject")
        c.prove("C16.reject period-below-1ms-raises", ok)
        return
    if kind == "eng":
        # concrete companion run (no solver): typical decimal periods and start times in ordinary float arithmetic,
        # 25 waits with idle bodies - the grid must be hit to the microsecond (reals-for-floats is the stated limit of
        # the symbolic jobs; this run only guards against drift introduced by float bookkeeping)
        for P in (0.02, 0.005, 0.001, 0.0125, 0.05, 0.1, 0.0205):
            for t0 in (0, 5000000, 1234567):
                env2 = Env(c, t0)
                wpilib.ENV = env2
                nd = pd.NotifierDelay(P)
                Pus = int(P * 1e6)
                ok = True
                for k in range(1, 26):
                    nd.wait()
                    ok = ok and env2.t == t0 + k * Pus
                c.reach("engineering-values")
                c.prove("C16.eng grid-exact-for-typical-periods", ok, info=dict(P=P, t0=t0, t_end=env2.t))
                nd.free()
        return
    if kind == "step":
        # Layer B: one wait() from an arbitrary state satisfying the invariant expiry == G + Pus (G a grid point)
        Pus = c.integer("Pus", 1000, 10 ** 8)
        G = c.integer("G", 0, 10 ** 12)
        nd = object.__new__(pd.NotifierDelay)
        nd.delay_period = Pus
        nd._notifier = env.notifier_init()[0]
        nd._expiry_time = G + Pus
        env.alarm = G + Pus
        env.t = c.integer("now", 0, 10 ** 13)
        before = env.t
        nd.wait()
        c.reach("inductive-step")
        c.prove("C16.step not-early", env.t >= G + Pus)
        c.prove("C16.step exact-if-body-done", s_eq(env.t, G + Pus), when=(before <= G + Pus))
        c.prove("C16.step invariant-preserved", sx.s_and(s_eq(nd._expiry_time, G + 2 * Pus), s_eq(env.alarm, G + 2 * Pus)))
        return
    if kind == "two":
        # a first delay is used and released, a second one is created (the HAL re-uses the handle number), then the
        # first object is dropped and collected: the second delay must stay on its own grid
        import gc

        PA = c.real("PA", 0.001, 100)
        A = pd.NotifierDelay(PA)
        env.t = env.t + c.integer("bodyA", 0, 10 ** 9)
        A.wait()
        how = c.choose("release", 3)
        if how == 0:
            A.free()
        elif how == 1:
            with A:
                pass
        else:
            A.free()
            A.free()
        env.t = env.t + c.integer("gap", 0, 10 ** 9)
        P = c.real("P", 0.001, 100)
        tB = env.t
        B = pd.NotifierDelay(P)
        Pus = sx.sym_int(P * 1e6)
        if env.handle == env.base and env.inits == 2:
            c.reach("handle-number-reused")
        drop_at = c.choose("drop_first_at", job["K"] + 1)
        for k in range(1, job["K"] + 1):
            if drop_at == k - 1:
                A = None
                gc.collect()
            env.t = env.t + c.integer(f"body{k}", 0, 10 ** 9)
            before = env.t
            B.wait()
            grid = tB + k * Pus
            c.reach("second-delay-wait")
            c.prove("C16.grid not-early", env.t >= grid, info=dict(k=k, second_delay=True))
            c.prove("C16.grid exact-if-body-done", s_eq(env.t, grid), when=(before <= grid), info=dict(k=k, second_delay=True))
        B.free()
        return
    K = job["K"]
    P = c.real("P", 0.001, 100)
    t0 = env.t
    use_with = job.get("with_block", False)
    nd = pd.NotifierDelay(P)
    Pus = sx.sym_int(P * 1e6)
    if job.get("enter_gap"):
        # time passes between creation and entering the with-block: the grid stays anchored at creation
        env.t = env.t + c.integer("gap", 0, 10 ** 9)
        c.reach("entered-late")
        nd.__enter__()
    c.summary = lambda: dict(K=K, period_us=sx.concretize_desc(nd.delay_period), t_end=sx.concretize_desc(env.t))
    c.prove("C16.grid period-in-microseconds", s_eq(nd.delay_period, Pus))
    c.prove("C16.grid first-alarm", s_eq(env.alarm, t0 + Pus))
    free_at = job.get("free_at")
    for k in range(1, K + 1):
        b = c.integer(f"body{k}", 0, 10 ** 9)
        env.t = env.t + b
        before = env.t
        if free_at == k and job.get("free_while_blocked"):
            # free() arrives from another thread while wait() is blocked: wait() returns (no exception), later waits are no-ops
            env.free_during_wait = nd
            c.reach("freed-while-blocked")
            try:
                nd.wait()
                ok = True
            except Exception as e:
                ok = False
            w = env.waits
            try:
                nd.wait()
            except Exception:
                ok = False
            c.prove("C16.free wait-returns-when-freed-while-blocked", ok and env.waits == w and env.stopped == 1 and env.cleaned == 1,
                    info=dict(stopped=env.stopped, cleaned=env.cleaned))
            return
        if free_at == k:
            if use_with and job.get("raise_in_with"):
                # the with-block is left by an exception raised in the loop body
                c.reach("with-left-by-exception")
                try:
                    with nd:
                        raise KeyError("loop body failed")
                except KeyError:
                    pass
            elif use_with:
                with nd:
                    pass
            else:
                nd.free()
            w, tt, ups = env.waits, env.t, len(env.updates)
            nd.wait()
            nd.free()
            c.reach("freed")
            c.prove("C16.free wait-returns-immediately", env.waits == w and env.t is tt and len(env.updates) == ups)
            c.prove("C16.free stopped-and-cleaned-once", env.stopped == 1 and env.cleaned == 1, info=dict(stopped=env.stopped, cleaned=env.cleaned))
            return
        nd.wait()
        grid = t0 + k * Pus
        c.reach("wait")
        c.prove("C16.grid not-early", env.t >= grid, info=dict(k=k))
        c.prove("C16.grid exact-if-body-done", s_eq(env.t, grid), when=(before <= grid), info=dict(k=k))
        c.prove("C16.grid alarm-stays-on-grid", s_eq(env.alarm, t0 + (k + 1) * Pus), info=dict(k=k))
    c.prove("C16.grid one-notifier", env.inits == 1)


class C16(Spec):
    id = "C16"
    design_ref = "DESIGN.md §7 C16"
    clauses = ["C16.grid not-early", "C16.grid exact", "C16.grid alarm", "C16.free", "C16.step", "C16.reject", "C16.eng"]
    stubs = ["hal notifier: waitForNotifierAlarm(handle) returns at max(now, alarm time last programmed); after stop/clean nothing blocks",
             "wpilib.RobotController.getFPGATime: symbolic integer microseconds; RobotController.getTime: FPGA time plus a symbolic offset >= 0 (a user-installed time source)",
             "handle numbers of cleaned notifiers are re-used by the next initializeNotifier(); calls on a dead handle return at once",
             "builtin int() shadowed inside robotpy_ext.misc.precise_delay by truncation on terms"]
    assumptions = ["period*1e6 evaluated over the reals (the float product is outside the claim)"]
    outside = ["real HAL notifier blocking / threads", "rounding of delay_period * 1e6 in floating point",
               "more than K waits for the from-creation clauses (the inductive step C16.step covers any number of waits under the invariant expiry = grid point + period)"]

    def jobs(self, tier):
        K = 6 if tier == "quick" else 15
        j = [dict(kind="run", K=K), dict(kind="step"), dict(kind="reject"), dict(kind="run", K=min(K, 4), enter_gap=True),
             dict(kind="run", K=3, enter_gap=True, free_at=3, with_block=True)]
        j += [dict(kind="run", K=K, free_at=f, with_block=(f % 2 == 0)) for f in (1, 2, K)]
        j += [dict(kind="run", K=3, free_at=2, with_block=True, raise_in_with=True), dict(kind="eng"),
              dict(kind="run", K=3, free_at=2, free_while_blocked=True), dict(kind="run", K=2, free_at=1, free_while_blocked=True),
              dict(kind="two", K=2 if tier == "quick" else 4)]
        return j

    def bounds(self, tier):
        return dict(waits=6 if tier == "quick" else 15, period="symbolic real in [0.001, 100] s", body="symbolic integer us in [0, 1e9] per iteration",
                    inductive_step="one wait() from any state with expiry = G + P")

    def reach_required(self, tier):
        return ["wait", "freed", "inductive-step", "reject", "entered-late", "with-left-by-exception", "engineering-values", "freed-while-blocked", "second-delay-wait", "handle-number-reused"]

    def path_fn(self, c, job):
        path(c, job)

    def twin(self, tier):
        def tfn(c, job):
            import robotpy_ext.misc.precise_delay as pd
            import wpilib

            pd.int = sx.IntShadow
            env = Env(c)
            wpilib.ENV = env
            nd = pd.NotifierDelay(c.real("P", 0.001, 100))
            t0 = env.t
            env.t = env.t + c.integer("body", 0, 10 ** 9)
            nd.wait()
            c.prove("twin", s_eq(env.t, t0 + nd.delay_period))

        return [dict(kind="twin")], tfn


SPEC = C16()
