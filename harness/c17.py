"""C17: Sharp IR distance readings are bounded, monotone and invert the sim model.

Real getDistance()/setDistance(); the voltage / distance is a symbolic real; ``math.pow`` is replaced by
an uninterpreted function pw(x,a) with quantifier-free instances of: positivity, monotonicity in the base
(sign of the exponent), congruence, pw(pw(x,a),1/a) = x, and ground facts from the real libm at the clamp
end-points.  Infinite voltages are run concretely (real math.pow).
"""
import math

import z3

from engine import symex as sx
from engine.runner import Spec
from engine.symex import SNum, lift, s_and, s_close, s_eq, s_or

MODELS = {
    "SharpIR2Y0A02": dict(C=62.28, E=-1.092, lo=22.5, hi=145.0),
    "SharpIR2Y0A21": dict(C=26.449, E=-1.226, lo=10.0, hi=80.0),
    "SharpIR2Y0A41": dict(C=12.84, E=-0.9824, lo=4.5, hi=35.0),
}
PW = z3.Function("pw", z3.RealSort(), z3.RealSort(), z3.RealSort())


class SymMath:
    """Stand-in for the ``math`` module inside the drivers under test."""

    def __init__(self):
        self.apps = []

    def pow(self, x, a):
        if not isinstance(x, SNum) and not isinstance(a, SNum):
            return math.pow(x, a)
        xe, ae = lift(x), lift(a)
        self.apps.append((xe, ae))
        return SNum(PW(xe, ae))

    def __getattr__(self, n):
        return getattr(math, n)


def axioms(apps):
    ax = []
    for x, a in apps:
        ax.append(z3.Implies(x > 0, PW(x, a) > 0))
    for i, (x, a) in enumerate(apps):
        for y, b in apps[i + 1:]:
            ax.append(z3.Implies(z3.And(a == b, x == y), PW(x, a) == PW(y, b)))
            ax.append(z3.Implies(z3.And(a == b, a < 0, x > 0, y > 0, x <= y), PW(x, a) >= PW(y, b)))
            ax.append(z3.Implies(z3.And(a == b, a < 0, x > 0, y > 0, y <= x), PW(y, b) >= PW(x, a)))
            ax.append(z3.Implies(z3.And(a == b, a > 0, x > 0, y > 0, x <= y), PW(x, a) <= PW(y, b)))
            ax.append(z3.Implies(z3.And(a == b, a > 0, x > 0, y > 0, y <= x), PW(y, b) <= PW(x, a)))
    return ax


def band_facts(apps, M):
    """Ground facts from the real libm at the two voltages where the power law crosses the clamp values
    (taken 1e-9 outside the band) plus monotonicity instances towards them: outside the band the law is
    beyond the clamp, so readings there are pinned to lo / hi; inside the band the law stays uninterpreted."""
    C, E, lo, hi = M["C"], M["E"], M["lo"], M["hi"]
    ax = []
    x_hi = math.pow(hi / C, 1 / E)  # voltage at which the law equals hi (small voltage)
    x_lo = math.pow(lo / C, 1 / E)  # voltage at which the law equals lo (large voltage)
    pts = [x_hi * (1 - 1e-9), x_lo * (1 + 1e-9)]
    assert C * math.pow(pts[0], E) >= hi and C * math.pow(pts[1], E) <= lo
    for g in pts:
        ax.append(PW(lift(g), lift(E)) == lift(math.pow(g, E)))
    for x, a in apps:
        for g in pts:
            ax.append(z3.Implies(z3.And(a == lift(E), x > 0, x <= lift(g)), PW(x, a) >= PW(lift(g), lift(E))))
            ax.append(z3.Implies(z3.And(a == lift(E), x > 0, x >= lift(g)), PW(x, a) <= PW(lift(g), lift(E))))
    return ax


class Env:
    ds_attached = True

    def __init__(self):
        self.v = {}

    def analog_voltage(self, ai):
        return self.v[id(ai)]

    analog_avg_voltage = analog_voltage

    def set_analog_voltage(self, ai, v):
        self.v[id(ai)] = v

    def fms_attached(self):
        return False


def _mk(model, env):
    import robotpy_ext.common_drivers.distance_sensors as ds

    s = getattr(ds, model)(0)
    env.v[id(s.distance)] = 0
    return s


def path(c, job):
    import robotpy_ext.common_drivers.distance_sensors as ds
    import robotpy_ext.common_drivers.distance_sensors_sim as dsim
    import wpilib

    model = job["model"]
    M = MODELS[model]
    env = Env()
    wpilib.ENV = env
    sm = SymMath()
    old = ds.math, dsim.math
    ds.math = dsim.math = sm if c.symbolic else math
    C, E, lo, hi = M["C"], M["E"], M["lo"], M["hi"]
    kind = job["kind"]
    c.summary = dict(model=model, kind=kind)
    try:
        if kind == "inf":
            # also the sim helper at special distances (0, negative, huge, infinite): clamped, never raising
            s0 = _mk(model, env)
            sim0 = getattr(dsim, model + "Sim")(s0)
            for dd, want in ((0, lo), (-0.0, lo), (-5.0, lo), (1e9, hi), (float("inf"), hi), (float("-inf"), lo), (lo, lo), (hi, hi)):
                try:
                    sim0.setDistance(dd)
                    r = s0.getDistance()
                    ok = abs(r - want) <= 1e-6 * want and sim0.getDistance() == dd
                except Exception as e:
                    ok = False
                c.prove("C17.sim special-distance-clamped", ok, info=dict(d=str(dd)))
            s = _mk(model, env)
            for v, want in ((float("inf"), lo), (float("-inf"), hi), (0.0, hi), (-1.0, hi), (5.0, None), (1e300, lo), (1e-300, hi), (5e-324, hi), (1e-320, hi), (1e-310, hi), (-0.0, hi)):
                env.v[id(s.distance)] = v
                c.reach("special-values")
                try:
                    r = s.getDistance()
                except Exception as e:
                    c.prove("C17.range special-voltage-in-range", False, info=dict(v=str(v), exc=repr(e)[:80]))
                    continue
                c.prove("C17.range special-voltage-in-range", lo <= r <= hi and r == r, info=dict(v=str(v), r=r))
                if want is not None:
                    c.prove("C17.range special-voltage-clamps", r == want, info=dict(v=str(v), r=r))
            return
        if kind == "mono":
            s1, s2 = _mk(model, env), _mk(model, env)
            v1 = c.real("v1", -1000, 1000)
            v2 = c.real("v2", -1000, 1000)
            c.assume(v1 <= v2)
            env.v[id(s1.distance)] = v1
            env.v[id(s2.distance)] = v2
            r1 = s1.getDistance()
            r2 = s2.getDistance()
            if c.symbolic:
                c.add(*axioms(sm.apps))
                c.add(*band_facts(sm.apps, M))
            c.reach("mono")
            c.prove("C17.range reading-in-range", s_and(r1 >= lo, r1 <= hi, r2 >= lo, r2 <= hi))
            c.prove("C17.mono reading-never-increases-with-voltage", r1 >= r2)
            # inside the range the reading is the datasheet power law
            if c.symbolic:
                law = SNum(lift(C) * PW(lift(v1), lift(E)))
                inside = s_and(v1 >= 0.00001, law >= lo, law <= hi)
                c.prove("C17.law datasheet-power-law-inside-range", s_eq(r1, law), when=inside)
            else:
                if v1 >= 0.00001:
                    law = C * math.pow(v1, E)
                    if lo <= law <= hi:
                        c.prove("C17.law datasheet-power-law-inside-range", r1 == law)
            return
        if kind == "flicker":
            # the line changes while getDistance() runs: however often the driver samples it inside one call, the
            # result is a finite distance inside the documented range (concrete scripts, real math)
            ds.math = math
            s = _mk(model, env)
            bad = []
            for script in ((1.0, -1.0), (1.0, 0.0), (0.5, 5e-324), (2.0, -0.05), (0.3, 1e-7), (3.0, 1e-300), (1e-4, -3.0), (1.0, 1.0)):
                reads = [0]

                def src(ai, script=script, reads=reads):
                    v = script[min(reads[0], len(script) - 1)]
                    reads[0] += 1
                    return v

                env.analog_voltage = env.analog_avg_voltage = src
                try:
                    d = s.getDistance()
                    ok = isinstance(d, (int, float)) and d == d and lo - 1e-9 <= d <= hi + 1e-9
                except Exception as e:
                    d, ok = repr(e)[:60], False
                if not ok:
                    bad.append((script, d))
            c.reach("flicker")
            c.prove("C17.range reading-in-range-while-the-line-changes", not bad, info=dict(bad=bad[:3]))
            return
        if kind == "history":
            # the same sensor object read several times: every reading depends on the current voltage only
            s = _mk(model, env)
            vs = [c.real(f"v{i}", -10, 10) for i in range(job.get("reads", 3))]
            rs = []
            for v in vs:
                env.v[id(s.distance)] = v
                rs.append(s.getDistance())
            s2 = _mk(model, env)
            env.v[id(s2.distance)] = vs[-1]
            fresh = s2.getDistance()
            if c.symbolic:
                c.add(*axioms(sm.apps))
                c.add(*band_facts(sm.apps, M))
            c.reach("history")
            c.prove("C17.history reading-depends-on-current-voltage-only", s_eq(rs[-1], fresh))
            for (va, ra), (vb, rb) in zip(zip(vs, rs), list(zip(vs, rs))[1:]):
                c.prove("C17.mono reading-never-increases-with-voltage", rb <= ra, when=(va <= vb))
                c.prove("C17.mono reading-never-increases-with-voltage", ra <= rb, when=(vb <= va))
            return
        if kind == "sim2":
            # two setDistance() calls in a row on one helper (incl. repeating a value and 0 as the first value)
            s = _mk(model, env)
            sim = getattr(dsim, model + "Sim")(s)
            first = [0, c.real("d0", -1000, 1000)][c.choose("first", 2)]
            sim.setDistance(first)
            r0 = s.getDistance()
            d = c.real("d", -1000, 1000)
            sim.setDistance(d)
            r = s.getDistance()
            if c.symbolic:
                invE = 1 / E
                ax = axioms(sm.apps)
                for i in range(0, len(sm.apps) - 1):
                    (x0, a0), (x1, a1) = sm.apps[i], sm.apps[i + 1]
                    if z3.is_rational_value(a0) and z3.is_rational_value(a1):
                        ax.append(z3.Implies(z3.And(x0 > 0, x1 == PW(x0, a0), a0 * a1 <= lift(1 + 2 ** -40), a0 * a1 >= lift(1 - 2 ** -40)), PW(x1, a1) == x0))
                for x0, a0 in sm.apps:
                    for p in (lo * (1 - 1e-9), hi * (1 + 1e-9)):
                        xx = lift(p / C)
                        ax.append(PW(xx, lift(invE)) == lift(math.pow(p / C, invE)))
                        ax.append(z3.Implies(z3.And(a0 == lift(invE), x0 > 0, x0 <= xx), PW(x0, a0) >= PW(xx, lift(invE))))
                        ax.append(z3.Implies(z3.And(a0 == lift(invE), x0 > 0, x0 >= xx), PW(x0, a0) <= PW(xx, lift(invE))))
                c.add(*ax)
            c.reach("sim2")
            cl0 = sx.s_ite(first > hi, hi, sx.s_ite(first < lo, lo, first)) if not isinstance(first, int) else lo
            clamp = sx.s_ite(d > hi, hi, sx.s_ite(d < lo, lo, d))
            c.prove("C17.sim reading-is-clamped-set-distance", s_close(r0, cl0, 1e-9) if c.symbolic else abs(r0 - cl0) <= 1e-6 * cl0, info=dict(first=str(first)))
            c.prove("C17.sim reading-is-clamped-set-distance", s_close(r, clamp, 1e-9) if c.symbolic else abs(r - clamp) <= 1e-6 * clamp)
            c.prove("C17.sim helper-returns-set-distance", s_eq(sim.getDistance(), d))
            return
        if kind == "sim":
            s = _mk(model, env)
            sim = getattr(dsim, model + "Sim")(s)
            d = c.real("d", -1000, 1000)
            try:
                sim.setDistance(d)
                r = s.getDistance()
            except Exception as e:
                c.prove("C17.sim set-and-read-never-raise", False, info=dict(exc=repr(e)[:80]))
                return
            c.reach("sim")
            if c.symbolic:
                invE = 1 / E
                assert abs(invE * E - 1) < 2 ** -50
                ax = axioms(sm.apps)
                if len(sm.apps) >= 1:
                    x0, a0 = sm.apps[0]
                    # ground facts from the real libm just outside the clamp end-points + monotonicity:
                    # the simulated voltage stays above the driver's 1e-5 V floor
                    for p in (lo * (1 - 1e-9), hi * (1 + 1e-9)):
                        xx = lift(p / C)
                        ax.append(PW(xx, lift(invE)) == lift(math.pow(p / C, invE)))
                        ax.append(z3.Implies(z3.And(x0 > 0, x0 <= xx), PW(x0, a0) >= PW(xx, a0)))
                        ax.append(z3.Implies(z3.And(x0 > 0, x0 >= xx), PW(x0, a0) <= PW(xx, a0)))
                if len(sm.apps) >= 2:
                    c.reach("sim-symbolic-inside")
                    x1, a1 = sm.apps[1]
                    # pw(pw(x,1/E),E) = x for x > 0 (composition axiom instance, E*(1/E) = 1 up to 2^-50)
                    ax.append(z3.Implies(z3.And(x0 > 0, x1 == PW(x0, a0)), PW(x1, a1) == x0))
                elif not sm.apps:
                    c.reach("sim-clamped-concrete")
                c.add(*ax)
            clamp = sx.s_ite(d > hi, hi, sx.s_ite(d < lo, lo, d))
            c.prove("C17.sim reading-is-clamped-set-distance", s_close(r, clamp, 1e-9) if c.symbolic else abs(r - clamp) <= 1e-6 * clamp)
            c.prove("C17.sim helper-returns-set-distance", s_eq(sim.getDistance(), d))
    finally:
        ds.math, dsim.math = old


class C17(Spec):
    id = "C17"
    design_ref = "DESIGN.md §7 C17"
    real_capable = False
    clauses = ["C17.range reading", "C17.range special", "C17.mono", "C17.law", "C17.sim reading", "C17.sim helper", "C17.sim special", "C17.history"]
    stubs = ["wpilib.AnalogInput.getVoltage / AnalogInputSim.setVoltage: a symbolic real per input",
             "math.pow replaced by uninterpreted pw(x,a) + instantiated axioms (positivity, monotone in the base by sign of exponent, congruence, "
             "pw(pw(x,1/E),E)=x) + ground facts from the real libm at the clamp end-points"]
    assumptions = ["floats modelled as reals; 'reads d' claimed up to relative 1e-9", "libm pow is positive, monotone and the inverse pair holds up to rounding"]
    outside = ["accuracy of libm pow", "NaN input voltage", "the 4096 ADC codes as concrete doubles (a floating-point question no installed solver settles with a transcendental function)"]

    def jobs(self, tier):
        j = [dict(model=m, kind=k) for m in MODELS for k in ("mono", "sim", "inf", "history", "sim2", "flicker")]
        if tier != "quick":
            j += [dict(model=m, kind="history", reads=4) for m in MODELS]
        return j

    def bounds(self, tier):
        return dict(voltage="every real in [-1000,1000] (symbolic) plus +-inf, 0, tiny, huge (concrete)", distance="every real in [-1000,1000]", models=list(MODELS))

    def reach_required(self, tier):
        return ["mono", "sim", "special-values", "sim-symbolic-inside", "sim-clamped-concrete", "history", "sim2", "flicker"]

    def path_fn(self, c, job):
        path(c, job)

    def twin(self, tier):
        def tfn(c, job):
            import robotpy_ext.common_drivers.distance_sensors as ds
            import wpilib

            env = Env()
            wpilib.ENV = env
            sm = SymMath()
            old = ds.math
            ds.math = sm
            try:
                s = _mk("SharpIR2Y0A02", env)
                env.v[id(s.distance)] = c.real("v", -10, 10)
                r = s.getDistance()
                c.add(*axioms(sm.apps))
                c.prove("twin", r > 22.5)
            finally:
                ds.math = old

        return [dict(kind="twin")], tfn


SPEC = C17()
