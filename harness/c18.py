"""C18: unit conversion is consistent and linear sensors report exact scaled values.

Real units.convert on the real Unit objects, MaxSonar get(), REV pressure / calibrate; every value,
reading, supply voltage and calibration pressure is a symbolic real (floats as reals, literals lifted
as the exact rational of the double; 'exactly X' claimed up to relative 1e-9).
"""
import itertools

from engine import symex as sx
from engine.runner import Spec
from engine.symex import s_and, s_close, s_close_rel, s_eq, s_not


class Env:
    ds_attached = True

    def __init__(self):
        self.v = {}
        self.p = {}

    def analog_voltage(self, ai):
        return self.v[id(ai)]

    analog_avg_voltage = analog_voltage

    def counter_period(self, ctr):
        return self.p[id(ctr)]

    def fms_attached(self):
        return False


def _units():
    import robotpy_ext.common_drivers.units as u

    return u, dict(meter=u.meter, centimeter=u.centimeter, foot=u.foot, inch=u.inch)


# metres per unit, from the statement (100 cm per metre, 0.3048 m per foot, 12 inches per foot)
M_PER = dict(meter=1.0, centimeter=1 / 100, foot=0.3048, inch=0.3048 / 12)


def path(c, job):
    import wpilib

    u, U = _units()
    kind = job["kind"]
    env = Env()
    wpilib.ENV = env
    c.summary = dict(kind=kind, job={k: v for k, v in job.items() if k != "kind"})
    if kind == "triple":
        a, b, d = (U[n] for n in job["units"])
        x = c.real("x", -10 ** 6, 10 ** 6)  # any magnitude, including values far below 1e-9
        y = c.real("y", -10 ** 6, 10 ** 6)
        c.reach("triple")
        c.prove("C18.units identity", s_close_rel(u.convert(a, a, x), x), info=dict(units=job["units"]))
        c.prove("C18.units inverse", s_close_rel(u.convert(b, a, u.convert(a, b, x)), x), info=dict(units=job["units"]))
        c.prove("C18.units path-independent", s_close_rel(u.convert(b, d, u.convert(a, b, x)), u.convert(a, d, x)), info=dict(units=job["units"]))
        c.prove("C18.units additive", s_close_rel(u.convert(a, b, x + y), u.convert(a, b, x) + u.convert(a, b, y)), info=dict(units=job["units"]))
        c.prove("C18.units homogeneous", s_close_rel(u.convert(a, b, 3 * x), 3 * u.convert(a, b, x)), info=dict(units=job["units"]))
        # the defined constants
        na, nb = job["units"][0], job["units"][1]
        c.prove("C18.units constants", s_close_rel(u.convert(a, b, x), x * (M_PER[na] / M_PER[nb])), info=dict(units=job["units"]))
        return
    if kind == "chain":
        # user-defined unit chains: depth <= 12 below the root, concrete factors
        f = job["factors"]
        root = u.Unit(base_unit=None, base_to_unit=lambda v: None, unit_to_base=lambda v: None)
        chain = [root]
        for k in f:
            chain.append(u.Unit(base_unit=chain[-1], base_to_unit=(lambda k: lambda v: v * k)(k), unit_to_base=(lambda k: lambda v: v / k)(k)))
        side = u.Unit(base_unit=chain[1] if len(chain) > 1 else root, base_to_unit=lambda v: v * 7, unit_to_base=lambda v: v / 7)
        x = c.real("x", -10 ** 6, 10 ** 6)
        c.reach("chain")
        picks = chain[-3:] + [side] if len(chain) <= 6 else [chain[0], chain[1], chain[len(chain) // 2], chain[-2], chain[-1], side]
        for a, b, d in itertools.permutations(picks, 3):
            c.prove("C18.chain inverse", s_close_rel(u.convert(b, a, u.convert(a, b, x)), x))
            c.prove("C18.chain path-independent", s_close_rel(u.convert(b, d, u.convert(a, b, x)), u.convert(a, d, x)))
        prod = 1
        for k in f:
            prod = prod * k
        c.prove("C18.chain scale", s_close_rel(u.convert(root, chain[-1], x), x * prod))
        # units defined in terms of other units: their callables call convert() themselves
        yard = u.Unit(base_unit=u.meter, base_to_unit=lambda m: u.convert(u.meter, u.foot, m) / 3, unit_to_base=lambda y: u.convert(u.foot, u.meter, y * 3))
        fathom = u.Unit(base_unit=yard, base_to_unit=lambda y: y / 2, unit_to_base=lambda fm: fm * 2)
        cable = u.Unit(base_unit=fathom, base_to_unit=lambda fm: fm / 100, unit_to_base=lambda cb: cb * 100)
        c.reach("reentrant-units")
        c.prove("C18.chain reentrant-units", s_close_rel(u.convert(u.meter, fathom, x), x / 0.3048 / 3 / 2))
        c.prove("C18.chain reentrant-units", s_close_rel(u.convert(fathom, fathom, x), x))
        c.prove("C18.chain reentrant-units", s_close_rel(u.convert(cable, u.meter, x), x * 100 * 2 * 3 * 0.3048))
        c.prove("C18.chain reentrant-units", s_close_rel(u.convert(u.inch, cable, u.convert(cable, u.inch, x)), x))
        return
    if kind == "sonar":
        import robotpy_ext.common_drivers.xl_max_sonar_ez as xs

        import builtins

        # DriverBase prints a warning for unverified drivers; formatting is not the subject
        out = U[job["unit"]]
        old_print = builtins.print
        builtins.print = lambda *a, **k: None
        try:
            if job["sensor"] == "pulse":
                s = xs.MaxSonarEZPulseWidth(0, out)
                r = c.real("period", 0, 1)
                env.p[id(s.counter)] = r
                got = s.get()
                inches = r / 0.000147
                exp = inches * (M_PER["inch"] / M_PER[job["unit"]])
                c.prove("C18.sonar semi-period-mode", s.counter.semi is True)
            else:
                s = xs.MaxSonarEZAnalog(0, out)
                r = c.real("volts", 0, 5)
                env.v[id(s.analog)] = r
                got = s.get()
                cm = r / 0.0049
                exp = cm * (M_PER["centimeter"] / M_PER[job["unit"]])
        finally:
            builtins.print = old_print
        c.reach("sonar")
        c.prove("C18.sonar scaled-reading", s_close_rel(got, exp), info=dict(sensor=job["sensor"], unit=job["unit"]))
        return
    if kind == "sonar2":
        # both driver kinds alive in one process with the same output unit, built in either order, read twice
        import builtins

        import robotpy_ext.common_drivers.xl_max_sonar_ez as xs

        out = U[job["unit"]]
        old_print = builtins.print
        builtins.print = lambda *a, **k: None
        try:
            order = c.choose("order", 2)
            mk = [lambda: xs.MaxSonarEZPulseWidth(0, out), lambda: xs.MaxSonarEZAnalog(1, out)]
            a, b = (mk[0](), mk[1]()) if order == 0 else tuple(reversed((mk[1](), mk[0]())))
            r = c.real("period", 0, 1)
            v = c.real("volts", 0, 5)
            env.p[id(a.counter)] = r
            env.v[id(b.analog)] = v
            ga, gb = a.get(), b.get()
            ga2 = a.get()
        finally:
            builtins.print = old_print
        c.reach("sonar2")
        c.prove("C18.sonar scaled-reading", s_close_rel(ga, (r / 0.000147) * (M_PER["inch"] / M_PER[job["unit"]])), info=dict(sensor="pulse", unit=job["unit"], both=True))
        c.prove("C18.sonar scaled-reading", s_close_rel(gb, (v / 0.0049) * (M_PER["centimeter"] / M_PER[job["unit"]])), info=dict(sensor="analog", unit=job["unit"], both=True))
        c.prove("C18.sonar scaled-reading", s_eq(ga, ga2), info=dict(repeat=True))
        return
    if kind == "pressure":
        import robotpy_ext.common_drivers.pressure_sensors as ps

        vcc = c.real("vcc", -10, 10) if job.get("sym_vcc") else None
        s = ps.REVAnalogPressureSensor(0, vcc) if vcc is not None else ps.REVAnalogPressureSensor(0)
        if vcc is None:
            vcc = 5
        v = c.real("v", -10, 10)
        env.v[id(s.sensor)] = v
        try:
            p = s.pressure
            raised = False
        except Exception:
            raised = True
        c.reach("pressure")
        c.prove("C18.pressure never-raises", not raised)
        if not raised:
            c.prove("C18.pressure formula", s_close(p, sx.s_div(250 * v, vcc) - 25),
                    when=s_and(v >= 0.00001, s_not(s_eq(vcc, 0))))
        if job.get("calibrate"):
            kp = c.real("known", 0, 500)
            s.calibrate(kp)
            try:
                p2 = s.pressure
                raised = False
            except Exception:
                raised = True
            c.reach("calibrated")
            c.prove("C18.pressure never-raises", not raised)
            if not raised:
                c.prove("C18.pressure calibrated-reads-known-pressure", s_close(p2, kp), info=dict())
            # calibrating again (another pressure, another voltage) replaces the earlier calibration
            v3 = c.real("v3", 0.00001, 10)
            env.v[id(s.sensor)] = v3
            kp2 = c.real("known2", 0, 500)
            try:
                s.calibrate(kp2)
                p4 = s.pressure
                c.reach("calibrated-twice")
                c.prove("C18.pressure calibrated-reads-known-pressure", s_close(p4, kp2), info=dict(second=True))
            except Exception:
                c.prove("C18.pressure never-raises", False)
            # a different voltage after calibration: scales with V/Vn
            v2 = c.real("v2", 0.00001, 10)
            env.v[id(s.sensor)] = v2
            try:
                p3 = s.pressure
                c.prove("C18.pressure never-raises", True)
            except Exception:
                c.prove("C18.pressure never-raises", False)


def _is_zero(x):
    return not isinstance(x, sx.SNum) and x == 0


class C18(Spec):
    id = "C18"
    design_ref = "DESIGN.md §7 C18"
    real_capable = False
    clauses = ["C18.units identity", "C18.units inverse", "C18.units path", "C18.units additive", "C18.units constants", "C18.chain",
               "C18.sonar scaled", "C18.pressure formula", "C18.pressure never", "C18.pressure calibrated"]
    stubs = ["wpilib.AnalogInput.getVoltage/getAverageVoltage, Counter.getPeriod: a symbolic real per device"]
    assumptions = ["floats modelled as reals; float literals lifted as the exact rational of the double; 'exactly X' claimed up to relative 1e-9"]
    outside = ["floating-point rounding of the conversions", "user-defined units with non-linear conversion callables", "NaN / infinite readings"]

    def jobs(self, tier):
        names = ["meter", "centimeter", "foot", "inch"]
        j = [dict(kind="triple", units=list(t)) for t in itertools.product(names, repeat=3)]
        chains = [[3], [3, 0.5], [3, 0.5, 7.25], [2.54, 12, 3, 1760], [2, 3, 0.5, 7, 1.5, 0.25, 5, 1.25, 9, 0.2, 11, 13]]
        if tier != "quick":
            chains += [[0.001, 1000, 0.3048, 12, 72], [2, 2, 2, 2, 2, 2], [1e-9, 1e9], [1 / 3, 3, 7, 1 / 7], [1852, 1 / 1852, 3.2808]]
        j += [dict(kind="chain", factors=f) for f in chains]
        j += [dict(kind="sonar", sensor=s, unit=n) for s in ("pulse", "analog") for n in names]
        j += [dict(kind="sonar2", unit=n) for n in names]
        j += [dict(kind="pressure"), dict(kind="pressure", sym_vcc=True), dict(kind="pressure", calibrate=True),
              dict(kind="pressure", sym_vcc=True, calibrate=True)]
        return j

    def bounds(self, tier):
        return dict(units="all 64 ordered triples of the 4 defined units; user chains of depth 1-12", values="every real in [-1e6,1e6]",
                    sensors="period in [0,1] s, voltage in [-10,10] V, supply in [-10,10] V, calibration pressure in [0,500]")

    def reach_required(self, tier):
        return ["triple", "chain", "sonar", "sonar2", "pressure", "calibrated", "calibrated-twice", "reentrant-units"]

    def path_fn(self, c, job):
        path(c, job)

    def twin(self, tier):
        def tfn(c, job):
            u, U = _units()
            x = c.real("x", -10, 10)
            c.prove("twin", s_close(u.convert(U["foot"], U["inch"], x), x * 11))

        return [dict(kind="twin")], tfn


SPEC = C18()
