"""C19: Toggle flips once per press; debouncers and rate limiters fire once per period.

Real Toggle / ButtonDebouncer / PeriodicFilter / SimpleWatchdog; every clock advance, button level,
accessor choice, period, record level and watchdog operation is symbolic.
"""
import types

from engine import symex as sx
from engine.runner import Spec
from engine.symex import s_and, s_eq, s_implies, s_not, s_or


class Joy:
    def __init__(self):
        self.level = False

    def getRawButton(self, b):
        return self.level


class Env:
    ds_attached = True

    def __init__(self, c, us=False):
        self.c = c
        self.us = us
        self.t = c.integer("t0", 0, 10 ** 9) if us else c.real("t0", 0, 1000)
        self.n = 0

    def advance(self):
        self.n += 1
        if self.us:
            self.t = self.t + self.c.integer(f"dt{self.n}", 0, 10 ** 8)
        else:
            self.t = self.t + self.c.real(f"dt{self.n}", 0, 1000)

    def now_s(self):
        return self.t

    def now_us(self):
        return self.t

    def raw_button(self, joy, b):
        return joy.level

    def fms_attached(self):
        return False


ACCESSORS = ["get", "on", "off", "bool"]


def sample(T, acc):
    if acc == "get":
        return T.get()
    if acc == "on":
        return T.on
    if acc == "off":
        return T.off
    return bool(T)


def path_toggle(c, job):
    import robotpy_ext.control.toggle as tg
    import wpilib

    tg.float = sx.FloatShadow
    env = Env(c)
    wpilib.ENV = env
    j = wpilib.Joystick(0)
    j.level = False
    debounce = job["debounce"]
    P = c.real("P", 0, 100) if debounce else None
    T = tg.Toggle(j, 1, P) if debounce else tg.Toggle(j, 1)
    exp_state = False
    prev_level = False
    flips = []
    released_since_flip = True
    last_pressed_t = 0  # time of the last sample that saw the raw button pressed (the window anchor starts at 0)
    prev_raw = None
    prev_t = None
    accs = job["accessors"]
    for k in range(job["K"]):
        env.advance()
        lv = c.boolean(f"lv{k}")
        j.level = lv
        acc = accs[c.choose(f"acc{k}", len(accs))]
        before = T.state
        r = sample(T, acc)
        lvb = bool(j.level) if not debounce else None
        flipped = T.state != before
        if not debounce:
            # reference: flips exactly on released->pressed edges of its own samples
            edge = lvb and not prev_level
            prev_level = lvb
            if edge:
                exp_state = not exp_state
                c.reach("edge")
            c.reach("toggle-sample")
            c.prove("C19.toggle flips-exactly-on-press-edges", T.state == exp_state and T.toggle == exp_state,
                    info=dict(k=k, acc=acc))
        else:
            lvl_now = bool(j.level)
            if prev_raw is False and lvl_now:
                # the previous sample saw the button released with no steady window open (no pressed sample within
                # the last period): this press is a released-to-pressed edge the toggle has to take
                c.reach("press-after-quiet-period")
                c.prove("C19.toggle debounced-flips-on-press-after-quiet-period", flipped, when=(prev_t - last_pressed_t >= P), info=dict(k=k, acc=acc))
            prev_raw, prev_t = lvl_now, env.t
            if lvl_now:
                last_pressed_t = env.t
            if flipped:
                c.reach("debounced-flip")
                c.prove("C19.toggle flip-only-when-pressed", lvl_now, info=dict(k=k))
                # never while the button is held: a raw released sample lies between two changes
                c.prove("C19.toggle debounced-no-flip-while-held", released_since_flip, info=dict(k=k))
                flips.append(env.t)
                released_since_flip = False
            if not lvl_now:
                released_since_flip = True
        want = {"get": T.toggle, "on": T.state, "off": not T.state, "bool": T.toggle}[acc]
        c.prove("C19.toggle accessor-value", r == want and T.toggle == T.state, info=dict(k=k, acc=acc))
    for a, b in zip(flips, flips[1:]):
        c.reach("two-flips")
        c.prove("C19.toggle debounced-flips-period-apart", b - a >= P)
    c.summary = lambda: dict(kind="toggle", debounce=debounce, state=T.state)


def path_debouncer(c, job):
    import robotpy_ext.control.button_debouncer as bd
    import wpilib

    bd.float = sx.FloatShadow
    env = Env(c)
    wpilib.ENV = env
    j = wpilib.Joystick(0)
    P = c.real("P", 0, 100)
    D = bd.ButtonDebouncer(j, 1, P)
    last_true = None
    for k in range(job["K"]):
        env.advance()
        j.level = c.boolean(f"lv{k}")
        if job.get("set_period") and k == job["K"] // 2:
            P = c.real("P2", 0, 100)
            D.set_debounce_period(P)
        r = D.get() if k % 2 == 0 else bool(D)
        now = env.t
        c.reach("debouncer-sample")
        if r:
            c.reach("debouncer-true")
            c.prove("C19.debouncer true-only-when-pressed", j.level, info=dict(k=k))
            if last_true is not None:
                c.reach("two-trues")
                c.prove("C19.debouncer trues-more-than-period-apart", now - last_true > P, info=dict(k=k))
            last_true = now
        elif last_true is not None:
            c.prove("C19.debouncer fires-when-pressed-after-period", s_not(s_and(j.level, now - last_true > P)), info=dict(k=k))
    c.summary = lambda: dict(kind="debouncer")


def path_filter(c, job):
    import robotpy_ext.misc.periodic_filter as pf

    env = Env(c)
    pf.time = types.SimpleNamespace(monotonic=env.now_s)
    try:
        P = c.real("P", 0, 100)
        bypass = c.integer("bypass", 0, 60)
        F = pf.PeriodicFilter(P, bypass_level=bypass) if not job.get("default_bypass") else pf.PeriodicFilter(P)
        if job.get("default_bypass"):
            bypass = 30  # logging.WARN
        last_low = None
        for k in range(job["K"]):
            env.advance()
            lvl = c.integer(f"level{k}", 0, 60)
            # the record's creation time is wall-clock time: unrelated to the monotonic clock (the wall clock may be stepped)
            rec = types.SimpleNamespace(levelno=lvl, created=c.real(f"wall{k}", 0, 10 ** 6), msg="m", name="log")
            r = F.filter(rec)
            high = bool(lvl >= bypass)
            c.reach("filter-record")
            if high:
                c.reach("bypass-record")
                c.prove("C19.filter bypass-level-always-passes", r, info=dict(k=k))
            elif r:
                c.reach("low-pass")
                if last_low is not None:
                    c.reach("two-low-passes")
                    c.prove("C19.filter low-level-at-most-once-per-period", env.t - last_low > P, info=dict(k=k))
                last_low = env.t
    finally:
        import time

        pf.time = time
    c.summary = lambda: dict(kind="filter")


class RecLogger:
    def __init__(self, env):
        self.env = env
        self.warnings = []

    def warning(self, *a):
        self.warnings.append(self.env.t)

    def info(self, *a):
        pass

    debug = error = info


def path_watchdog(c, job):
    import robotpy_ext.misc.simple_watchdog as wd
    import wpilib

    wd.int = sx.IntShadow
    env = Env(c, us=True)
    wpilib.ENV = env
    log = RecLogger(env)
    old_logger = wd.logger
    wd.logger = log
    try:
        T = c.real("timeout", 0, 10)
        W = wd.SimpleWatchdog(T)
        Tus = sx.sym_int(T * 1e6)
        reset_at = None
        ops = ["reset", "addEpoch", "isExpired", "printIfExpired", "setTimeout", "enable"]
        for k in range(job["K"]):
            env.advance()
            op = ops[c.choose(f"op{k}", len(ops))]
            if op == "reset":
                W.reset()
                reset_at = env.t
            elif op == "enable":
                W.enable()
                reset_at = env.t
            elif op == "addEpoch":
                W.addEpoch(f"e{k}")
            elif op == "setTimeout":
                T = c.real(f"timeout{k}", 0, 10)
                W.setTimeout(T)
                Tus = sx.sym_int(T * 1e6)
                reset_at = env.t
                c.prove("C19.watchdog getTimeout", s_eq(W.getTimeout() * 1000000, Tus))
            elif op == "isExpired":
                r = W.isExpired()
                if reset_at is not None:
                    c.reach("isExpired-after-reset")
                    c.prove("C19.watchdog expired-iff-timeout-elapsed-since-reset", s_eq(bool(r), env.t - reset_at > Tus)
                            if False else (sx.SBool(sx.lift_b(r) == sx.lift_b(env.t - reset_at > Tus))), info=dict(k=k))
            else:
                n = len(log.warnings)
                W.printIfExpired()
                if len(log.warnings) > n:
                    c.reach("warning")
                    if reset_at is not None:
                        c.prove("C19.watchdog warns-only-when-expired", env.t - reset_at > Tus, info=dict(k=k))
        for a, b in zip(log.warnings, log.warnings[1:]):
            c.reach("two-warnings")
            c.prove("C19.watchdog warnings-at-most-once-per-second", b - a > 1000000)
    finally:
        wd.logger = old_logger
    c.summary = lambda: dict(kind="watchdog", warnings=len(log.warnings))


def path_step(c, job):
    """Layer B: one sample from an arbitrary internal state (lifts the bound on the number of samples)."""
    import wpilib

    kind = job["what"]
    if kind == "toggle":
        import robotpy_ext.control.toggle as tg

        env = Env(c)
        wpilib.ENV = env
        j = wpilib.Joystick(0)
        T = tg.Toggle(j, 1)
        # representation invariant: toggle == state; released = level of the previous sample
        st = bool(c.boolean("state"))
        rel = bool(c.boolean("released"))
        T.state = T.toggle = st
        T.released = rel
        j.level = c.boolean("lv")
        acc = ACCESSORS[c.choose("acc", 4)]
        sample(T, acc)
        lv = bool(j.level)
        c.reach("toggle-step")
        c.prove("C19.step toggle-flip-iff-edge", (T.state != st) == (lv and not rel))
        c.prove("C19.step toggle-invariant", T.toggle == T.state and T.released == lv)
    elif kind == "debouncer":
        import robotpy_ext.control.button_debouncer as bd

        bd.float = sx.FloatShadow
        env = Env(c)
        wpilib.ENV = env
        j = wpilib.Joystick(0)
        P = c.real("P", 0, 100)
        D = bd.ButtonDebouncer(j, 1, P)
        L = c.real("latest", 0, 1000)
        c.assume(L <= env.t)
        D.latest = L
        j.level = c.boolean("lv")
        r = D.get()
        c.reach("debouncer-step")
        c.prove("C19.step debouncer", sx.SBool(sx.lift_b(r) == sx.lift_b(s_and(j.level, env.t - L > P))))
        c.prove("C19.step debouncer-latest", s_eq(D.latest, env.t if r else L))
    elif kind == "steady":
        import robotpy_ext.control.toggle as tg

        tg.float = sx.FloatShadow
        env = Env(c)
        wpilib.ENV = env
        j = wpilib.Joystick(0)
        P = c.real("P", 0, 100)
        T = tg.Toggle(j, 1, P)
        sd = getattr(T.joystickget, "__self__", None)
        if sd is None or not hasattr(sd, "latest") or not hasattr(T, "released"):
            c.reach("steady-step")  # representation changed: Layer B skipped, the claim stays bounded by K
            return
        L = c.real("latest", -100, 1000)
        c.assume(L <= env.t)
        sd.latest = L
        T.released = bool(c.boolean("released"))
        st = bool(c.boolean("state"))
        T.state = T.toggle = st
        # representation invariant: while the steady window opened at `latest` is active the toggle has
        # already seen the press (released is True); established by the sample that opened the window
        c.assume(s_or(s_not(env.t - L < P), T.released))
        j.level = c.boolean("lv")
        T.get()
        c.reach("steady-step")
        flipped = T.state != st
        c.prove("C19.step steady-flip-needs-expired-window-and-press", s_and(j.level, env.t - L >= P, s_eq(sd.latest, env.t)), when=flipped)


class C19(Spec):
    id = "C19"
    design_ref = "DESIGN.md §7 C19"
    clauses = ["C19.toggle flips", "C19.toggle accessor", "C19.toggle debounced", "C19.toggle flip-only", "C19.toggle debounced-no-flip", "C19.toggle debounced-flips-on-press", "C19.debouncer true-only",
               "C19.debouncer trues", "C19.debouncer fires", "C19.filter bypass", "C19.filter low", "C19.watchdog expired",
               "C19.watchdog warnings", "C19.step"]
    stubs = ["wpilib.Timer.getFPGATimestamp / RobotController.getFPGATime / time.monotonic: previous + fresh delta >= 0",
             "wpilib.Joystick.getRawButton: arbitrary boolean per sample",
             "builtin float()/int() shadowed inside toggle, button_debouncer, simple_watchdog (identity / truncation on terms)",
             "simple_watchdog.logger replaced by a recording fake"]
    assumptions = ["floats modelled as reals"]
    outside = ["more than K samples for the from-creation clauses (one-step clauses C19.step lift the bound for Toggle / ButtonDebouncer under the stated invariants)",
               "ButtonDebouncer before its first True (its 'latest' starts at FPGA time 0; the statement speaks about the last True)",
               "multi-threaded use"]

    def jobs(self, tier):
        q = tier == "quick"
        j = [dict(kind="toggle", debounce=False, K=5 if q else 8, accessors=["get", "off"]),
             dict(kind="toggle", debounce=False, K=4 if q else 6, accessors=["on", "bool"] if q else ACCESSORS),
             dict(kind="toggle", debounce=True, K=5 if q else 5, accessors=["get", "on"] if q else ACCESSORS),
             dict(kind="toggle", debounce=True, K=5 if q else 7, accessors=["bool", "off"] if q else ["get", "on"]),
             dict(kind="debouncer", K=6 if q else 10), dict(kind="debouncer", K=6 if q else 8, set_period=True),
             dict(kind="filter", K=6 if q else 7), dict(kind="filter", K=4 if q else 6, default_bypass=True),
             dict(kind="watchdog", K=5 if q else 6),
             dict(kind="step", what="toggle"), dict(kind="step", what="debouncer"), dict(kind="step", what="steady")]
        return j

    def bounds(self, tier):
        return dict(jobs=self.jobs(tier), note="K = samples / records / watchdog operations per history; every clock advance, level, accessor, period is symbolic")

    def reach_required(self, tier):
        return ["edge", "toggle-sample", "debounced-flip", "press-after-quiet-period", "two-flips", "debouncer-true", "two-trues", "bypass-record", "low-pass",
                "two-low-passes", "isExpired-after-reset", "warning", "two-warnings", "toggle-step", "debouncer-step", "steady-step"]

    def path_fn(self, c, job):
        sx.install_shadows()
        if job["kind"] == "step":
            # Layer B writes private attributes: if the representation on the tree under test differs, it is
            # skipped (the claim then stays bounded by K) - it must never raise an alarm by itself
            try:
                return path_step(c, job)
            except (AttributeError, TypeError) as e:
                c.obls[:] = [] if c.symbolic else c.obls
                for lab in ("toggle-step", "debouncer-step", "steady-step"):
                    c.reach(lab)
                c.reach("layer-b-skipped")
                return None
        return dict(toggle=path_toggle, debouncer=path_debouncer, filter=path_filter, watchdog=path_watchdog)[job["kind"]](c, job)

    def twin(self, tier):
        def tfn(c, job):
            import robotpy_ext.control.button_debouncer as bd
            import wpilib

            bd.float = sx.FloatShadow
            env = Env(c)
            wpilib.ENV = env
            j = wpilib.Joystick(0)
            D = bd.ButtonDebouncer(j, 1, c.real("P", 0, 100))
            env.advance()
            j.level = c.boolean("lv")
            c.prove("twin", s_not(D.get()))

        return [dict(kind="twin")], tfn


SPEC = C19()
