"""C20: crc7 equals the bit-serial CRC-7 (reflected polynomial 0x91) for every message.

The real ``crc7`` runs on symbolic bytes; its 256-entry table is replaced by a SymTable built from
the *real* table contents (ITE chain) or, for the induction over the length, by an uninterpreted
function.  Obligations (each one solver query over all byte values):
  T  table[i] == 8 bit-serial steps of i            (all 256 entries, symbolic i)
  L  for every length 0..N the value returned by the real loop == fold c <- T(d ^ c) from 0   (EUF)
  D  direct: real crc7 == bit-serial reference on n symbolic bytes (no abstraction), n <= ND
  R  result < 128
  consequences on 16-byte messages (through the real function): XOR-linearity, every single-bit,
  double-bit (< 127 apart) and burst (<= 7 bits) error changes the checksum; zero-byte step is a bijection.
"""
import z3

from engine import symex as sx
from engine.runner import Spec
from engine.symex import SBV, SBool, s_and, s_eq, s_not

POLY = 0x91


def ref_step8(x):
    """8 bit-serial steps (LSB first) of the reflected CRC with polynomial 0x91 on an 8-bit value."""
    if isinstance(x, SBV):
        e = x.e
        for _ in range(8):
            e = z3.LShR(z3.If((e & 1) == 1, e ^ POLY, e), 1)
        return SBV(e)
    for _ in range(8):
        if x & 1:
            x ^= POLY
        x >>= 1
    return x


def _call(f, x):
    """The real function on a valid message: an exception is a wrong answer, not a harness failure."""
    try:
        return f(x)
    except Exception as e:
        return f"<raised {type(e).__name__}>"


def ref_crc(data):
    c = 0
    for d in data:
        c = ref_step8(d ^ c)
    return c


class UFTable:
    """Uninterpreted table: T(x).  Used for the induction over the message length."""

    def __init__(self):
        self.f = z3.Function("T", z3.BitVecSort(8), z3.BitVecSort(8))

    def __getitem__(self, i):
        if isinstance(i, SBV):
            return SBV(self.f(i.e))
        return SBV(self.f(z3.BitVecVal(i, 8)))


def _bytes_of(c, name, n):
    return [c.bitvec(f"{name}{i}", 8) for i in range(n)]


def _error_bytes(c, kind):
    """16-byte error pattern with symbolic bit positions (as list of SBV / ints)."""
    if c.symbolic:
        W = 128
        p = z3.BitVec(c.fresh_name("p"), W)
        c.inputs.append(("p", p, "bv"))
        c.add(z3.ULT(p, W))
        one = z3.BitVecVal(1, W)
        if kind == "single":
            e = one << p
        elif kind == "double":
            q = z3.BitVec(c.fresh_name("q"), W)
            c.inputs.append(("q", q, "bv"))
            c.add(z3.ULT(q, W), z3.ULT(p, q), z3.ULT(q - p, 127))
            e = (one << p) | (one << q)
        else:  # burst of length <= 7: pattern with both end bits... any non-zero 7-bit pattern with lsb set
            b = z3.BitVec(c.fresh_name("b"), W)
            c.inputs.append(("b", b, "bv"))
            c.add(z3.ULT(b, 128), (b & 1) == 1, z3.ULE(p, W - 7))
            e = b << p
        return [SBV(z3.Extract(8 * i + 7, 8 * i, e)) for i in range(16)]
    p = c.bitvec("p", 128)
    if kind == "single":
        e = 1 << p
    elif kind == "double":
        q = c.bitvec("q", 128)
        e = (1 << p) | (1 << q)
    else:
        b = c.bitvec("b", 128)
        e = b << p
    return [(e >> (8 * i)) & 0xFF for i in range(16)]


def path(c, job):
    import robotpy_ext.misc.crc7 as m

    real_table = list(m._crc7_table) if not isinstance(m._crc7_table, (sx.SymTable, UFTable)) else m._REAL
    m._REAL = real_table
    kind = job["kind"]
    c.summary = dict(kind=kind, n=job.get("n"))
    try:
        if kind == "len":
            # EUF: the real loop builds exactly the fold T(d_n ^ T(... T(d_1 ^ 0)))
            uf = UFTable()
            m._crc7_table = uf if c.symbolic else real_table
            n = job["n"]
            data = _bytes_of(c, "d", n)
            got = m.crc7(data)
            if c.symbolic:
                exp = 0
                for d in data:
                    exp = uf[d ^ exp]
                c.reach("length-fold")
                c.prove("C20.L loop-is-fold-of-table", s_eq(got, exp) if n else got == 0, info=dict(n=n))
            else:
                c.prove("C20.L loop-is-fold-of-table", got == ref_crc(data), info=dict(n=n))
            return
        m._crc7_table = sx.SymTable(real_table, 8) if c.symbolic else real_table
        if kind == "table":
            i = c.bitvec("i", 8)
            got = m.crc7([i])
            c.reach("table")
            c.prove("C20.T table-entry-equals-bit-serial", s_eq(got, ref_step8(i)), info=dict(i=i))
            c.prove("C20.R result-below-128", got < 128, info=dict(i=i))
            c.prove("C20.T table-has-256-entries", len(real_table) == 256)
        elif kind == "direct":
            data = _bytes_of(c, "d", job["n"])
            got = m.crc7(data)
            c.reach("direct")
            c.prove("C20.D equals-bit-serial", s_eq(got, ref_crc(data)) if job["n"] else got == 0, info=dict(n=job["n"]))
            if job["n"]:
                c.prove("C20.R result-below-128", got < 128)
        elif kind == "linear":
            # one-byte messages through the real function: T[x ^ y] == T[x] ^ T[y]; with L (the loop is the
            # fold c <- T[d ^ c]) linearity for equal-length messages of any length follows by induction
            x = c.bitvec("x", 8)
            y = c.bitvec("y", 8)
            c.reach("linear")
            c.prove("C20.X xor-linear-step", s_eq(m.crc7([x ^ y]), m.crc7([x]) ^ m.crc7([y])))
            a = _bytes_of(c, "a", 2)
            b = _bytes_of(c, "b", 2)
            if not c.symbolic:
                c.prove("C20.X xor-linear-2bytes", m.crc7([p ^ q for p, q in zip(a, b)]) == m.crc7(a) ^ m.crc7(b))
        elif kind in ("single", "double", "burst"):
            e = _error_bytes(c, kind)
            c.reach(kind)
            # with linearity, flipping the bits e of any 16-byte message changes the checksum iff crc7(e) != 0
            # discharged on the bit-serial reference circuit, which T + L show equal to the real function
            c.prove(f"C20.E {kind}-error-detected", s_not(s_eq(ref_crc(e), 0)), info=dict(kind=kind))
            if not c.symbolic:
                c.prove(f"C20.E {kind}-error-detected", m.crc7(e) != 0, info=dict(kind=kind, through="real"))
        elif kind == "fault":
            # a call that raises part-way through a message (item out of range / not a number) leaves nothing behind
            m._crc7_table = real_table
            n = job["n"]
            good = _bytes_of(c, "d", n) if False else None
            bad_msgs = ([0x21, 0x79, 300], [1, 2, 3, None], [5, -300], [7, "x"])
            ok = True
            detail = None
            for bad in bad_msgs:
                try:
                    m.crc7(bad)
                except Exception:
                    pass
                for msg in ([], [0], [1, 2, 3], list(range(20))):
                    if _call(m.crc7, msg) != ref_crc(msg):
                        ok, detail = False, (bad, msg)
            c.reach("fault")
            c.prove("C20.F call-after-a-failed-call", ok, info=dict(detail=repr(detail)))
        elif kind == "types":
            # bytes / bytearray / tuple inputs cannot carry symbolic content: every 1-byte and 2-byte message of each
            # type is run through the real function (exhaustive enumeration, said so) against the bit-serial reference
            m._crc7_table = real_table
            bad = []
            import array

            def mv(x):  # a writable view on a receive buffer (a slice that drops trailing bytes)
                return memoryview(bytearray(list(x) + [0xEE, 0xEE]))[:-2]

            def mvro(x):
                return memoryview(bytes(x))

            def arr(x):
                return array.array("B", x)

            mv.__name__, mvro.__name__, arr.__name__ = "memoryview(bytearray)", "memoryview(bytes)", "array('B')"
            for T in (bytes, bytearray, tuple, mv, mvro, arr):
                for a in range(256):
                    if _call(m.crc7, T([a])) != ref_crc([a]):
                        bad.append((T.__name__, [a]))
                    for b in ((0, 1, 0x30, 0x91, 0xFF, a) if job.get("light") else range(256)):
                        if _call(m.crc7, T([a, b])) != ref_crc([a, b]):
                            bad.append((T.__name__, [a, b]))
                if _call(m.crc7, T([])) != 0 or _call(m.crc7, list(T([]))) != 0:
                    bad.append((T.__name__, []))
                for msg in ([0x30] * 5, [0] * 9 + [7], list(range(40)), [0x30, 0x30, 1, 2, 3, 0x30]):
                    if _call(m.crc7, T(msg)) != ref_crc(msg):
                        bad.append((T.__name__, msg))
            c.reach("types")
            c.prove("C20.Y sequence-types-agree-with-bit-serial", not bad, info=dict(first_bad=bad[:3], n=len(bad)))
        elif kind == "reuse":
            # history: the same list object is checksummed, changed in place and checksummed again
            n = job["n"]
            data = _bytes_of(c, "d", n)
            first = m.crc7(data)
            e = c.bitvec("flip", 8)
            pos = c.choose("pos", n)
            old = data[pos]
            data[pos] = old ^ e
            second = m.crc7(data)
            c.reach("reuse")
            c.prove("C20.H same-buffer-after-in-place-change", s_eq(second, ref_crc(list(data))), info=dict(n=n, pos=pos))
            c.prove("C20.H first-call", s_eq(first, ref_crc([old if i == pos else x for i, x in enumerate(data)])), info=dict(n=n))
            third = m.crc7(tuple(data))
            c.prove("C20.H other-sequence-type-same-content", s_eq(third, second))
        elif kind == "bijection":
            x = c.bitvec("x", 8)
            y = c.bitvec("y", 8)
            c.assume(s_and(x < 128, y < 128, s_not(s_eq(x, y))))
            c.reach("bijection")
            c.prove("C20.B zero-byte-step-injective", s_not(s_eq(m._crc7_table[x], m._crc7_table[y])))
    finally:
        m._crc7_table = real_table


class C20(Spec):
    id = "C20"
    design_ref = "DESIGN.md §7 C20"
    real_capable = True
    clauses = ["C20.T", "C20.L", "C20.D", "C20.R", "C20.X", "C20.E single", "C20.E double", "C20.E burst", "C20.B", "C20.H", "C20.Y", "C20.F"]
    stubs = ["robotpy_ext.misc.crc7._crc7_table replaced by a z3 term built from the real table contents (ITE chain) or an uninterpreted function (length induction)"]
    assumptions = ["message bytes are integers in [0,255] (bytes / bytearray / list of ints)"]
    outside = ["data items outside [0,255] (IndexError / other table rows are not part of the statement)",
               "concurrent calls from several threads (a table built lazily and published half-filled is invisible to any sequential history: seeded/C20-P)",
               "error-detection consequences are discharged on 16-byte messages; longer messages follow from linearity + the bijection of the zero-byte step (argument, not discharged)"]

    def jobs(self, tier):
        N, ND = (16, 4) if tier == "quick" else (64, 5)
        j = [dict(kind="table")]
        j += [dict(kind="len", n=n) for n in range(0, N + 1)]
        j += [dict(kind="len", n=n) for n in ((255, 256, 257) if tier == "quick" else (127, 128, 255, 256, 257, 511, 512, 513, 1024))]
        j += [dict(kind="direct", n=n) for n in range(0, ND + 1)]
        j += [dict(kind="linear")]
        j += [dict(kind=k) for k in ("single", "double", "burst", "bijection")]
        j += [dict(kind="reuse", n=n) for n in ((1, 2) if tier == "quick" else (1, 2, 3))]
        j += [dict(kind="types", light=(tier == "quick")), dict(kind="fault", n=2)]
        return j

    def bounds(self, tier):
        N, ND = (16, 4) if tier == "quick" else (64, 5)
        return dict(table="all 256 entries (symbolic index)", length_induction_up_to=N, direct_bitvector_equality_up_to_bytes=ND,
                    error_patterns="all single-bit, double-bit (<127 apart), burst (<=7) patterns in 16-byte messages")

    def reach_required(self, tier):
        return ["table", "length-fold", "direct", "linear", "single", "double", "burst", "bijection", "reuse", "types", "fault"]

    def path_fn(self, c, job):
        path(c, job)

    def twin(self, tier):
        def tfn(c, job):
            import robotpy_ext.misc.crc7 as m

            real = list(m._crc7_table)
            m._crc7_table = sx.SymTable(real, 8)
            try:
                i = c.bitvec("i", 8)
                c.prove("twin", s_eq(m.crc7([i]), ref_step8(i ^ 1)))
            finally:
                m._crc7_table = real

        return [dict(kind="table")], tfn


SPEC = C20()
