"""Clauses of C05 / C06 / C07 over the event log of one robot run."""
from engine.symex import s_and, s_eq, s_implies, s_not, s_or
from harness.loop_common import cbs, parse, sites

PERIOD_US = 20000
INIT_SITE = {"teleop": "robot.teleopInit", "auto": "robot.autonomousInit", "disabled": "robot.disabledInit",
             "test": "robot.testInit"}
PERIODIC_SITE = {"teleop": "robot.teleopPeriodic", "disabled": "robot.disabledPeriodic", "test": "robot.testPeriodic"}


def _fb_sites(H):
    return [s["site"] for s in getattr(H, "fb_specs", [])]


def expected_iteration(H, mode, auto_active):
    """The callback sequence the statement prescribes for one iteration, feedbacks as a set."""
    head = []
    if mode == "teleop":
        head = ["robot.teleopPeriodic"]
    elif mode == "auto":
        if auto_active:
            head.append("auto.on_iteration")
        if H.uti:
            head.append("robot.teleopPeriodic")
    else:
        head = [PERIODIC_SITE[mode]]
    if mode in ("teleop", "auto"):
        head += [f"{cn}.execute" for cn in H.comps if f"{cn}.execute" not in getattr(H, "silent", ())]
    return head, set(_fb_sites(H)), ["robot.robotPeriodic"]


def check_iteration(c, H, P, it, mode, auto_active, idx):
    got = sites(it.events)
    head, fbs, tail = expected_iteration(H, mode, auto_active)
    n = len(head)
    info = dict(iteration=idx, mode=mode, got=got, expected=head + sorted(fbs) + tail)
    ok_head = got[:n] == head
    mid = got[n:len(got) - len(tail)] if len(got) >= n + len(tail) else None
    ok_tail = got[len(got) - len(tail):] == tail if len(got) >= len(tail) else False
    ok_mid = mid is not None and sorted(mid) == sorted(fbs)
    c.prove(f"{P}.order iteration-sequence", ok_head and ok_mid and ok_tail, info=info)
    for e in cbs(it.events):
        c.prove(f"{P}.ntmode callback-sees-running-mode", e[4] == mode, info=dict(site=e[1], nt=e[4], mode=mode, iteration=idx))


def clauses_structure(c, H, P, timing=False, lifecycle=True, order=True):
    """C05 (order, timing, /robot/mode) and C06 (lifecycle) on the parsed log; also used under faults (C07)."""
    pre, segs = parse(H.log)
    comps = H.comps
    hooks = H.hook_names
    auto_pkg = H.job["cfg"].get("auto_pkg", True)
    # ---- start-up (C06): constructors, then setup once each, before anything else ----
    if lifecycle:
        pre_sites = [(e[0], e[1]) for e in pre if e[0] in ("ctor", "cb")]
        exp = [("ctor", cn) for cn in comps] + [("cb", f"{cn}.setup") for cn in comps if "setup" in hooks[cn]]
        c.reach("startup")
        c.prove(f"{P}.setup once-after-construction-before-anything", pre_sites == exp, info=dict(got=pre_sites, expected=exp))
        for e in H.log.ev:
            if e[0] == "setup_sees":
                c.reach("setup-sees-others")
                c.prove(f"{P}.setup after-all-components-exist-and-are-injected", all(ok for _, ok in e[2]), info=dict(component=e[1], sees=e[2]))
        all_sites = sites(H.log.ev)
        for cn in comps:
            if "setup" in hooks[cn]:
                c.prove(f"{P}.setup exactly-once", all_sites.count(f"{cn}.setup") == 1, info=dict(component=cn))
    enabled = {cn: False for cn in comps}
    prev_mode = None
    gidx = 0
    for si, sg in enumerate(segs):
        mode = sg.mode
        ent = sites(sg.enter)
        lev = sites(sg.leave)
        en_seq = [f"{cn}.on_enable" for cn in comps if "on_enable" in hooks[cn]]
        dis_seq = [f"{cn}.on_disable" for cn in comps if "on_disable" in hooks[cn]]
        auto_active = mode == "auto" and auto_pkg
        if mode == "teleop":
            exp_enter, exp_leave = en_seq + [INIT_SITE[mode]], dis_seq
        elif mode == "auto":
            exp_enter = en_seq + [INIT_SITE[mode]] + (["auto.on_enable"] if auto_active else [])
            exp_leave = (["auto.on_disable"] if auto_active else []) + dis_seq
        elif mode == "disabled":
            exp_enter, exp_leave = dis_seq + [INIT_SITE[mode]], []
        else:
            exp_enter, exp_leave = [INIT_SITE[mode]], []
        if lifecycle:
            c.reach(f"enter-{mode}")
            if prev_mode in ("auto", "teleop") and mode in ("auto", "teleop"):
                c.reach("direct-switch-between-enabled-modes")
            c.prove(f"{P}.enter sequence", ent == exp_enter, info=dict(segment=si, mode=mode, got=ent, expected=exp_enter))
            c.prove(f"{P}.leave sequence", lev == exp_leave, info=dict(segment=si, mode=mode, got=lev, expected=exp_leave))
            for e in cbs(sg.enter):
                c.prove(f"{P}.ntmode callback-sees-running-mode", e[4] == mode, info=dict(site=e[1], nt=e[4], mode=mode))
        if timing:
            # the period grid of a mode is anchored after the mode has been entered: no entry callback (components'
            # on_enable, the init hook, the autonomous mode's on_enable) runs on the loop's clock
            di = [i for i, e in enumerate(sg.enter) if e[0] == "delay_init"]
            if di:
                late = [e[1] for e in sg.enter[di[0] + 1:] if e[0] == "cb"]
                c.reach("grid-anchor")
                c.prove(f"{P}.timing grid-anchored-after-mode-entry", not late, info=dict(segment=si, mode=mode, entry_callbacks_after_the_delay_was_created=late))
        # bracket (C06): execute only between on_enable and on_disable
        for e in cbs(sg.enter) + [x for it in sg.iters for x in cbs(it.events)] + cbs(sg.leave):
            s = e[1]
            cn, _, what = s.partition(".")
            if cn in enabled:
                if what == "on_enable":
                    enabled[cn] = True
                elif what == "on_disable":
                    enabled[cn] = False
                elif what == "execute" and lifecycle:
                    c.reach("execute-bracket")
                    c.prove(f"{P}.bracket execute-only-while-enabled", enabled[cn] or "on_enable" not in hooks[cn],
                            info=dict(component=cn, segment=si, mode=mode))
        # iterations
        for j, it in enumerate(sg.iters):
            gidx += 1
            if lifecycle:
                # a refresh whose control word names another mode must end this mode (its components are
                # disabled before anything of the next mode runs): no iteration of `mode` under another word
                c.prove(f"{P}.leave mode-left-when-ds-word-changes", it.mode == mode, info=dict(segment=si, mode=mode, ds=it.mode))
            if order:
                c.reach(f"iteration-{mode}")
                c.prove(f"{P}.order iteration-mode-matches-ds", it.mode == mode, info=dict(segment=si, mode=mode, ds=it.mode))
                check_iteration(c, H, P, it, mode, auto_active, gidx)
            if timing and sg.delay_t0 is not None:
                # grid: the k-th wait of this mode returns at t0 + k*P (never earlier), exactly if the body was done
                g = sg.delay_t0 + (j + 1) * H.period_us
                c.reach("timing-grid")
                c.prove(f"{P}.timing never-early", it.wait_end >= g, info=dict(segment=si, k=j + 1))
                c.prove(f"{P}.timing exact-when-body-done", s_eq(it.wait_end, g), when=(it.body_end <= g), info=dict(segment=si, k=j + 1))
                if j + 1 < len(sg.iters):
                    c.prove(f"{P}.timing next-iteration-starts-at-wait-end", s_eq(sg.iters[j + 1].start, it.wait_end), info=dict(segment=si, k=j + 1))
        prev_mode = mode
    return segs


def clauses_liveness(c, H, P):
    """Every refresh whose word keeps the robot in the running mode starts an iteration; a changed word
    leaves the mode; the program ends only by shutdown."""
    pre, segs = parse(H.log)
    n_iter = sum(len(sg.iters) for sg in segs)
    refreshes = [e for e in H.log.ev if e[0] == "refresh"]
    exp = 0
    # walk refreshes with the dispatch modes: iteration iff refresh mode == segment mode
    seg_of = {}
    cur = None
    for e in H.log.ev:
        if e[0] == "dispatch":
            cur = e[1]
        elif e[0] == "refresh":
            if e[2] == cur:
                exp += 1
    c.reach("liveness")
    c.prove(f"{P}.live every-matching-refresh-iterates", n_iter == exp, info=dict(iterations=n_iter, expected=exp))
    c.prove(f"{P}.live ends-by-shutdown-only", H.outcome[0] == "normal" and bool(refreshes) and refreshes[-1][3] is True,
            info=dict(outcome=H.outcome[0]))
