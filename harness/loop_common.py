"""Shared MagicRobot loop harness (C05, C06, C07, C10, C11).

The real ``MagicRobot.startCompetition()`` runs to completion on a generated robot; the environment
(driver-station word at every refreshData(), shutdown request, FMS flag, loop-body durations, fault
firing, values written / returned by user callbacks) is symbolic.  Callbacks only log.
"""
import atexit
import os
import shutil
import sys
import tempfile

from engine import symex as sx
from engine import world

MODES = ["disabled", "auto", "teleop", "test"]
WORDS = {"disabled": (False, False, False), "auto": (True, True, False), "teleop": (True, False, False),
         "test": (True, False, True)}
# raw control words -> the mode the statement assigns to them (thorough).  The driver station's mode selector is
# exclusive: autonomous and test are never set together, so those two words are not driver-station states.
RAW_WORDS = [((e, a, t), ("disabled" if not e else "auto" if a else "test" if t else "teleop"))
             for e in (False, True) for a in (False, True) for t in (False, True) if not (a and t)]


class Boom(Exception):
    pass


class BoomBase(BaseException):
    """A fault that is not an Exception subclass (SystemExit-like)."""


class BoomAttr(AttributeError):
    """An AttributeError raised inside a callback (a typo such as self.motr)."""


class BoomType(TypeError):
    pass


class BoomKey(KeyError):
    pass


class BoomStop(StopIteration):
    pass


class BoomBare(Exception):
    """Raised without any argument (a bare ``raise NotImplementedError`` / ``assert``): ``args == ()``."""


class BoomKbd(KeyboardInterrupt):
    """Ctrl-C arriving inside a callback: an exception like any other for the statement."""


BOOMS = dict(exception=Boom, base=BoomBase, attr=BoomAttr, type=BoomType, key=BoomKey, stop=BoomStop, bare=lambda site: BoomBare(), kbd=BoomKbd)
ALL_BOOMS = (Boom, BoomBase, BoomAttr, BoomType, BoomKey, BoomStop, BoomBare, BoomKbd)


class Shared:
    """A robot object injected into the later-declared components."""


class _NoTarget:
    """A module-level sentinel compared by identity (a legal will_reset_to default)."""

    def __repr__(self):
        return "<NO_TARGET>"


NO_TARGET = _NoTarget()


class Log:
    def __init__(self):
        self.ev = []

    def add(self, *e):
        self.ev.append(e)


class LoopEnv:
    """Nondeterministic environment of one robot run."""

    ds_attached = True

    def __init__(self, c, cfg, log):
        self.c = c
        self.cfg = cfg
        self.log = log
        self.robot = None
        self.t = 0  # FPGA time in microseconds (int or SNum)
        self.k = 0
        self.N = cfg["N"]
        self.alarm = {}
        self.nh = 0
        self.errors = []
        self.stopped = set()
        self.mode = self._choose_mode(0)
        self.word = self._word(self.mode, 0)
        self.shutdown = False
        fms = cfg.get("fms", "sym")
        self.fms_per_call = fms == "per-refresh"
        self.nfms = 0
        self.fms_epoch = None
        self.fms = c.boolean("fms") if fms in ("sym", "per-refresh") else bool(fms)
        self.fms_value = None
        self.fault = None
        self.iter_no = 0
        self.sd = {}

    # --- driver station -------------------------------------------------
    def _choose_mode(self, k):
        if self.cfg.get("raw_words"):
            i = self.c.choose(f"word{k}", len(RAW_WORDS))
            self._raw = RAW_WORDS[i][0]
            return RAW_WORDS[i][1]
        self._raw = None
        return MODES[self.c.choose(f"mode{k}", len(MODES))]

    def _word(self, mode, k):
        return self._raw if self._raw is not None else WORDS[mode]

    def refresh(self):
        self.k += 1
        if self.k > self.N or (self.cfg.get("sym_shutdown") and self.c.choose(f"stop{self.k}", 2)):
            self.shutdown = True
            self.log.add("refresh", self.k, self.mode, True, self.t)
            self.robot.endCompetition()
            return
        self.mode = self._choose_mode(self.k)
        self.word = self._word(self.mode, self.k)
        self.log.add("refresh", self.k, self.mode, False, self.t)

    def control_state(self):
        if self.cfg.get("change_at_dispatch") and not self.shutdown and self.k < self.N:
            if self.c.choose(f"disp{self.k}_{len(self.log.ev)}", 2):
                self.mode = self._choose_mode(100 + len(self.log.ev))
                self.word = self._word(self.mode, 0)
        self.log.add("dispatch", self.mode, self.t)
        return self.word

    def fms_attached(self):
        if self.fms_per_call:
            # the FMS connection may come and go during a run: it can change at every refreshData()
            if self.fms_epoch != self.k:
                self.fms_epoch = self.k
                self.nfms += 1
                self.fms = self.c.boolean(f"fms{self.nfms}")
            self.log.add("fms", self.nfms, self.fms)
        return self.fms

    def sd_get_string(self, k, d):
        return self.sd.get(k, d)

    def observe(self, kind):
        self.log.add("observe", kind)

    # --- time -----------------------------------------------------------
    def now_us(self):
        return self.t

    def now_s(self):
        return self.t / 1e6

    def spend(self, where):
        """Loop-body duration: a symbolic number of microseconds (only where the job asks for it)."""
        if self.cfg.get("sym_body") and where in self.cfg["sym_body"]:
            d = self.c.integer(f"body{len(self.log.ev)}", 0, 200000)
            self.t = self.t + d

    def notifier_init(self):
        self.nh += 1
        self.log.add("delay_init", self.nh, self.t)
        return (self.nh, 0)

    def notifier_stop(self, h):
        self.stopped.add(h)

    def notifier_clean(self, h):
        self.log.add("delay_free", h)

    def notifier_update(self, h, t):
        self.alarm[h] = t

    def notifier_wait(self, h):
        self.log.add("wait_begin", h, self.t, self.snapshot())
        if h not in self.stopped:
            a = self.alarm[h]
            if a > self.t:
                self.t = a
        self.log.add("wait_end", h, self.t)
        return self.t

    def snapshot(self):
        if not self.cfg.get("nt_snapshot"):
            return None
        import ntcore

        return dict(ntcore.STORE.values)

    # --- fault injection --------------------------------------------------
    def maybe_raise(self, site):
        f = self.fault
        if f is None:
            return
        for fs in f:
            if fs["site"] == site:
                fs["n"] += 1
                n = fs["n"]
                fire = (fs["pattern"] == "always" or (fs["pattern"] == "first" and n == 1)
                        or (fs["pattern"] == "later" and n >= 2))
                if fire:
                    e = BOOMS[fs.get("kind", "exception")](site)
                    self.log.add("raise", site, id(e))
                    fs.setdefault("raised", []).append(e)
                    raise e


def nt_mode():
    if world.is_sym():
        import ntcore

        return ntcore.STORE.values.get("/robot/mode")
    import ntcore

    return ntcore.NetworkTableInstance.getDefault().getEntry("/robot/mode").getString("?")


# -------------------------------------------------------------------------------------
# autonomous package (the selector imports a package literally named "autonomous")
# -------------------------------------------------------------------------------------

_PKG = {}


def ensure_auto_pkg():
    if "dir" in _PKG:
        return _PKG["dir"]
    d = tempfile.mkdtemp(prefix="verif_auto_", dir=os.environ.get("VERIF_TMP"))
    os.mkdir(os.path.join(d, "autonomous"))
    with open(os.path.join(d, "autonomous", "__init__.py"), "w") as f:
        f.write("")
    with open(os.path.join(d, "autonomous", "modes.py"), "w") as f:
        f.write(AUTO_SRC)
    _PKG["dir"] = d
    atexit.register(shutil.rmtree, d, True)
    return d


AUTO_SRC = '''
import verif_loop_reg as R


class AutoA:
    MODE_NAME = "A"
    DEFAULT = True

    def on_enable(self):
        R.cb("auto.on_enable", "auto")

    def on_iteration(self, tm):
        R.cb("auto.on_iteration", "auto", tm)

    def on_disable(self):
        R.cb("auto.on_disable", "auto")


class AutoB:
    MODE_NAME = "B"

    def on_enable(self):
        R.cb("autoB.on_enable", "auto")

    def on_iteration(self, tm):
        R.cb("autoB.on_iteration", "auto", tm)

    def on_disable(self):
        R.cb("autoB.on_disable", "auto")
'''


class _Reg:
    """Registry module the generated code reports to (module name: verif_loop_reg)."""

    H = None

    @staticmethod
    def cb(site, owner, *payload):
        _Reg.H.callback(site, owner, *payload)


def install_registry():
    import types

    m = sys.modules.get("verif_loop_reg")
    if m is None:
        m = types.ModuleType("verif_loop_reg")
        sys.modules["verif_loop_reg"] = m
    m.cb = _Reg.cb
    return m


def set_auto_pkg(enabled):
    d = ensure_auto_pkg()
    if enabled:
        if d not in sys.path:
            sys.path.insert(0, d)
    else:
        if d in sys.path:
            sys.path.remove(d)
        for k in [k for k in sys.modules if k == "autonomous" or k.startswith("autonomous.")]:
            del sys.modules[k]
    import importlib

    importlib.invalidate_caches()


# -------------------------------------------------------------------------------------
# the harness object: callbacks report here
# -------------------------------------------------------------------------------------


class Harness:
    def __init__(self, c, job, env, log):
        self.c = c
        self.job = job
        self.env = env
        self.log = log
        self.hooks = {}  # site -> extra behaviour (C10 writers/readers, C11 values)

    def callback(self, site, owner, *payload):
        env = self.env
        self.log.add("cb", site, owner, env.t, nt_mode(), payload)
        h = self.hooks.get(site)
        if h is not None:
            h(site)
        if site.endswith("Periodic") and not site.startswith("robot.robotPeriodic"):
            env.spend("periodic")
        env.maybe_raise(site)


def build_robot(layout, H, opts):
    """Generated robots.  R1: two components.  R2: three components, c2's class inherits c1's class
    (hooks and markers), c3 has only execute().  R3: the robot class itself is inherited and adds a component."""
    import magicbot
    from magicbot import MagicRobot, feedback, will_reset_to

    _Reg.H = H
    install_registry()

    class CompA:
        NAME = "c1"
        x = will_reset_to(0)

        def __init__(self):
            H.log.add("ctor", self.NAME)
            self.plain = "init"

        def setup(self):
            # what the other components look like at this moment: all of them exist and are fully injected
            r = H.robot
            seen = []
            for cn in getattr(H, "comps", []):
                o = getattr(r, cn, None)
                if o is not None and "shared" in getattr(type(o), "__annotations__", {}):
                    seen.append((cn, getattr(o, "shared", None) is getattr(r, "shared", "<no robot attr>")))
                elif o is None:
                    seen.append((cn, False))
            H.log.add("setup_sees", self.NAME, seen)
            marks = []
            for cn, attr, dflt in getattr(H, "marker_attrs", []):
                o = getattr(r, cn, None)
                if o is not None:
                    marks.append((cn, attr, getattr(o, attr, "<missing>"), dflt))
            if marks:
                H.log.add("setup_markers", self.NAME, marks)
            H.callback(f"{self.NAME}.setup", self.NAME)

        def on_enable(self):
            H.callback(f"{self.NAME}.on_enable", self.NAME)

        def on_disable(self):
            H.callback(f"{self.NAME}.on_disable", self.NAME)

        def execute(self):
            H.callback(f"{self.NAME}.execute", self.NAME)

    CompA._hidden = will_reset_to(-1)  # a marker under a private name

    class CompB(CompA):
        NAME = "c2"
        y = will_reset_to("dflt")
        z = will_reset_to(2.5)  # CompA.z (below) re-declared with another default

        def setup(self):
            # extends the inherited setup(): the base body runs once, through this call
            super().setup()

    CompA.z = will_reset_to(1.5)

    class CompB1:
        NAME = "c2"
        y = will_reset_to("dflt")
        target = will_reset_to(NO_TARGET)
        shared: Shared

        def __setattr__(self, k, v):
            # a write journal (dirty tracking): only real assignments go through here
            object.__setattr__(self, k, v)
            self.__dict__.setdefault("journal", []).append(k)

        def __init__(self):
            H.log.add("ctor", self.NAME)
            self.plain = "init"
            self.y = "set by the constructor"  # a marked attribute: the declared default wins at start-up

        def setup(self):
            H.callback("c2.setup", "c2")

        def on_enable(self):
            H.callback("c2.on_enable", "c2")

        def on_disable(self):
            H.callback("c2.on_disable", "c2")

        def execute(self):
            H.callback("c2.execute", "c2")

    class CompC:
        NAME = "c3"
        shared: Shared

        def __init__(self):
            H.log.add("ctor", "c3")

        def execute(self):
            H.callback("c3.execute", "c3")

    H.fb_specs = []
    if opts.get("feedbacks"):
        opts["feedbacks"](H, CompA, CompB, CompB1, CompC, feedback)

    class RobotBase0(MagicRobot):
        control_loop_wait_time = H.period
        shared = Shared()

        def createObjects(self):
            H.log.add("createObjects")

        def teleopInit(self):
            H.callback("robot.teleopInit", "robot")

        def teleopPeriodic(self):
            H.callback("robot.teleopPeriodic", "robot")

        def disabledInit(self):
            H.callback("robot.disabledInit", "robot")

        def disabledPeriodic(self):
            H.callback("robot.disabledPeriodic", "robot")

        def autonomousInit(self):
            H.callback("robot.autonomousInit", "robot")

        def testInit(self):
            H.callback("robot.testInit", "robot")

        def testPeriodic(self):
            H.callback("robot.testPeriodic", "robot")

        def robotPeriodic(self):
            H.callback("robot.robotPeriodic", "robot")

    if opts.get("robot_feedbacks"):
        opts["robot_feedbacks"](H, RobotBase0, feedback)

    if layout == "R1":
        class Robot(RobotBase0):
            c1: CompA
            c2: CompB1
        comps = ["c1", "c2"]
    elif layout == "R2":
        class Robot(RobotBase0):
            c1: CompA
            c2: CompB
            c3: CompC
        comps = ["c1", "c2", "c3"]
    elif layout == "R3":
        class Mid(RobotBase0):
            c1: CompA

        class Robot(Mid):
            c2: CompB1
        comps = ["c1", "c2"]
    elif layout == "R5":
        # two components of one and the same class
        cnt = [0]

        class CompTwin:
            x = will_reset_to(0)
            y = will_reset_to("dflt")

            def __init__(self):
                cnt[0] += 1
                self.NAME = f"c{cnt[0]}"
                H.log.add("ctor", self.NAME)
                self.plain = "init"

            setup = CompA.setup
            on_enable = CompA.on_enable
            on_disable = CompA.on_disable
            execute = CompA.execute

        if opts.get("twin_feedbacks"):
            opts["twin_feedbacks"](H, CompTwin, feedback)

        class Robot(RobotBase0):
            c1: CompTwin
            c2: CompTwin
        comps = ["c1", "c2"]
    elif layout == "R4":
        # a StateMachine component declared after a plain one (and before another plain one)
        class CompSM(magicbot.StateMachine):
            NAME = "c2"

            def __init__(self):
                H.log.add("ctor", "c2")

            def setup(self):
                H.callback("c2.setup", "c2")

            def on_enable(self):
                H.callback("c2.on_enable", "c2")

            def on_disable(self):
                super().on_disable()
                H.callback("c2.on_disable", "c2")

            def execute(self):
                H.callback("c2.execute", "c2")
                super().execute()

            @magicbot.state(first=True)
            def idle(self):
                pass

        class Robot(RobotBase0):
            c1: CompA
            c2: CompSM
            c3: CompC
        comps = ["c1", "c2", "c3"]
    elif layout == "R0":
        # a robot program without any component (only the robot's own hooks and feedbacks)
        class Robot(RobotBase0):
            pass
        comps = []
    elif layout == "R6":
        # components without (some of) the optional hooks declared before the ones that have them
        class CompD:
            NAME = "c4"

            def __init__(self):
                H.log.add("ctor", "c4")

            def on_disable(self):
                H.callback("c4.on_disable", "c4")

            def execute(self):
                H.callback("c4.execute", "c4")

        class CompE:
            NAME = "c5"

            def __init__(self):
                H.log.add("ctor", "c5")

            def on_enable(self):
                H.callback("c5.on_enable", "c5")

            def execute(self):
                H.callback("c5.execute", "c5")

        class CompK:
            """Gets its dependency through the constructor (declared before components that do not)."""
            NAME = "c6"

            def __init__(self, shared: Shared):
                H.log.add("ctor", "c6")
                self.got = shared

            def setup(self):
                H.callback("c6.setup", "c6")

            def on_enable(self):
                H.callback("c6.on_enable", "c6")

            def on_disable(self):
                H.callback("c6.on_disable", "c6")

            def execute(self):
                H.callback("c6.execute", "c6")

        class Robot(RobotBase0):
            c3: CompC
            c6: CompK
            c4: CompD
            c5: CompE
            c1: CompA
        comps = ["c3", "c6", "c4", "c5", "c1"]
    else:
        raise ValueError(layout)
    hooks = {"c1": {"setup", "on_enable", "on_disable"}, "c2": {"setup", "on_enable", "on_disable"}, "c3": set(),
             "c4": {"on_disable"}, "c5": {"on_enable"}, "c6": {"setup", "on_enable", "on_disable"}}
    craise = H.job["cfg"].get("c_raiser")
    if craise:
        # a hook that is a C-implemented callable and raises (no python frame of its own): the framework sees an
        # exception whose traceback ends in its own code; the hook never logs, so it is not expected in the log
        cn, _, hook = craise.partition(".")
        setattr({"c1": CompA}[cn], hook, [].pop)
        hooks[cn].discard(hook)
        H.silent = {craise}
    return Robot, comps, hooks


SITES_COMMON = ["robot.teleopInit", "robot.teleopPeriodic", "robot.disabledInit", "robot.disabledPeriodic",
                "robot.autonomousInit", "robot.testInit", "robot.testPeriodic", "robot.robotPeriodic",
                "auto.on_enable", "auto.on_iteration", "auto.on_disable"]


def fault_sites(comps, hooks):
    s = list(SITES_COMMON)
    for cn in comps:
        s.append(f"{cn}.execute")
        for h in ("on_enable", "on_disable"):
            if h in hooks[cn]:
                s.append(f"{cn}.{h}")
    return s


def run_robot(c, job, opts=None):
    """One complete startCompetition() on a fresh robot.  Returns (H, outcome)."""
    import ntcore
    import wpilib

    opts = opts or {}
    cfg = job["cfg"]
    log = Log()
    ntcore.reset()
    wpilib.SmartDashboard.data.clear()
    env = LoopEnv(c, cfg, log)
    wpilib.ENV = env
    H = Harness(c, job, env, log)
    per = cfg.get("period", 0.02)
    if per == "sym":
        import robotpy_ext.misc.precise_delay as _pd
        import robotpy_ext.misc.simple_watchdog as _wd

        _pd.int = _wd.int = sx.IntShadow
        per = c.real("period", 0.001, 0.1)
    H.period = per
    H.period_us = sx.sym_int(per * 1e6) if isinstance(per, sx.SNum) else int(per * 1e6)
    set_auto_pkg(cfg.get("auto_pkg", True))
    Robot, comps, hooks = build_robot(job["layout"], H, opts)
    H.comps, H.hook_names = comps, hooks
    # fault plan
    nf = cfg.get("faults", 0)
    if nf:
        sites = fault_sites(comps, hooks)
        if cfg.get("fault_sites"):
            sites = list(cfg["fault_sites"])
        plan = []
        avail = [None] + sites
        for j in range(nf):
            k = c.choose(f"fsite{j}", len(avail))
            if avail[k] is None:
                continue
            pats = cfg.get("fault_patterns", ["first", "always", "later"])
            p = pats[c.choose(f"fpat{j}", len(pats))]
            kind = cfg.get("fault_kind", "exception")
            if kind == "any":
                kinds = sorted(BOOMS)
                kind = kinds[c.choose(f"fkind{j}", len(kinds))]
            plan.append(dict(site=avail[k], pattern=p, n=0, kind=kind))
        env.fault = plan
        H.fault_plan = plan
    else:
        H.fault_plan = []
    r = Robot()
    env.robot = r
    H.robot = r
    uti = cfg.get("use_teleop_in_autonomous", "sym")
    if uti == "sym":
        uti = bool(c.boolean("use_teleop_in_autonomous"))
    r.use_teleop_in_autonomous = uti
    H.uti = uti
    if opts.get("pre_start"):
        opts["pre_start"](H, r)
    outcome = ("normal", None)
    try:
        r.startCompetition()
    except ALL_BOOMS as e:
        outcome = ("boom", e)
    except Exception as e:
        outcome = ("error", repr(e)[:300])
    H.outcome = outcome
    H.fms = env.fms
    c.summary = lambda: dict(layout=job["layout"], outcome=outcome[0], uti=uti,
                             log=[_plain_ev(e) for e in log.ev if e[0] in ("cb", "refresh", "dispatch", "raise")][:400])
    return H


def _plain_ev(e):
    if e[0] == "cb":
        return ["cb", e[1], sx.concretize_desc(e[3]), e[4]]
    if e[0] == "raise":
        return ["raise", e[1]]
    return [sx.concretize_desc(x) for x in e]


# -------------------------------------------------------------------------------------
# log structure
# -------------------------------------------------------------------------------------


class Segment:
    """One dispatch of the top-level loop: entering events, iterations, leaving events."""

    def __init__(self, mode, t):
        self.mode = mode
        self.t = t
        self.enter = []  # events before the first refresh
        self.iters = []  # list of Iteration
        self.leave = []  # events after the last refresh that did not start an iteration
        self.delay_t0 = None


class Iteration:
    def __init__(self, refresh_ev):
        self.refresh = refresh_ev
        self.mode = refresh_ev[2]
        self.start = refresh_ev[4]
        self.events = []
        self.body_end = None
        self.wait_end = None
        self.snapshot = None


def parse(log):
    """Split the event log into dispatch segments and iterations (an iteration = a refresh that is
    followed by a wait before the next refresh/dispatch)."""
    segs = []
    pre = []
    cur = None
    pending = None  # events after the most recent refresh
    for e in log.ev:
        k = e[0]
        if k == "dispatch":
            if cur is not None and pending is not None:
                cur.leave = pending[1]
            cur = Segment(e[1], e[2])
            segs.append(cur)
            pending = None
            continue
        if cur is None:
            pre.append(e)
            continue
        if k == "refresh":
            if pending is not None:
                # previous refresh did not lead to a wait: cannot happen (refresh->break leaves the loop)
                cur.leave = pending[1]
            pending = (e, [])
            continue
        if k == "delay_init" and cur.delay_t0 is None:
            cur.delay_t0 = e[2]
        if k == "wait_begin" and pending is not None:
            it = Iteration(pending[0])
            it.events = pending[1]
            it.body_end = e[2]
            it.snapshot = e[3]
            cur.iters.append(it)
            pending = ("await", it)
            continue
        if k == "wait_end" and pending is not None and pending[0] == "await":
            pending[1].wait_end = e[2]
            pending = None
            continue
        if pending is None:
            if not cur.iters and not cur.leave:
                cur.enter.append(e)
            else:
                cur.leave.append(e)
        elif pending[0] != "await":
            pending[1].append(e)
    if cur is not None and pending is not None and pending[0] != "await":
        cur.leave = pending[1]
    return pre, segs


def cbs(events):
    return [e for e in events if e[0] == "cb"]


def sites(events):
    return [e[1] for e in events if e[0] == "cb"]


# -------------------------------------------------------------------------------------
# stub validation against the real wpilib: scripts whose control word changes at step boundaries
# -------------------------------------------------------------------------------------


def script_inputs(script, uti, fms, fault, sites):
    """Inputs of the LoopEnv run that corresponds to a lock-step driver-station script
    [[mode, steps], ...] (first mode must be 'disabled': the DS state at program start)."""
    steps = [script[0][0]]
    for m, n in script:
        steps += [m] * n
    refreshes = []
    cur = steps[0]
    for st in steps:
        if st != cur:
            refreshes.append(st)  # this refresh ends the running mode ...
            cur = st
        refreshes.append(st)  # ... and the next mode's first refresh sees the same word
    inputs = {"mode0": MODES.index(steps[0]), "use_teleop_in_autonomous": bool(uti), "fms": bool(fms)}
    for k, m in enumerate(refreshes, 1):
        inputs[f"mode{k}"] = MODES.index(m)
    if fault:
        inputs["fsite0"] = 1 + sites.index(fault[0])
        inputs["fpat0"] = ["first", "always", "later"].index(fault[1])
    return inputs, len(refreshes)


def comparable_events(log_events):
    """Callback events of a SYM run up to (not including) the iteration started by the shutdown refresh."""
    out = []
    skipping = False
    after = False
    for e in log_events:
        if e[0] == "refresh":
            skipping = bool(e[3])
            after = after or skipping
            continue
        if e[0] == "wait_end":
            skipping = False
            continue
        if skipping:
            continue
        if e[0] == "cb":
            out.append(["cb", e[1], None if after else int(e[3]), e[4]])
        elif e[0] == "raise":
            out.append(["raise", e[1]])
    return out


def validate_against_real(seed, n_scripts, layouts=("R1", "R2", "R3")):
    """Runs n_scripts random lock-step scripts through the stubs (concrete LoopEnv) and through the real
    wpilib simulator; returns dict(validated, problems, samples)."""
    import json
    import random
    import subprocess
    import tempfile

    from engine import symex

    rnd = random.Random(seed)
    items = []
    for i in range(n_scripts):
        layout = layouts[i % len(layouts)]
        script = [["disabled", rnd.randint(1, 2)]]
        for _ in range(rnd.randint(2, 4)):
            m = rnd.choice([x for x in MODES if x != script[-1][0]])
            script.append([m, rnd.randint(1, 3)])
        fms = rnd.random() < 0.5
        fault = None
        job = dict(layout=layout, cfg=dict(N=0, auto_pkg=(i % 4 != 3), fms=fms, use_teleop_in_autonomous="sym"))
        if fms and rnd.random() < 0.7:
            job["cfg"]["faults"] = 1
        items.append(dict(job=job, script=script, fms=fms, uti=rnd.random() < 0.5, fault=fault, want_fault=bool(job["cfg"].get("faults"))))
    # SYM runs (concrete)
    sym_res = []
    for it in items:
        job = it["job"]
        # fault site chosen among the sites of this layout
        H0 = None
        comps = ["c1", "c2", "c3"] if job["layout"] == "R2" else ["c1", "c2"]
        hooks = {"c1": {"setup", "on_enable", "on_disable"}, "c2": {"setup", "on_enable", "on_disable"}, "c3": set()}
        sites = fault_sites(comps, hooks)
        if it["want_fault"]:
            it["fault"] = [rnd.choice(sites), rnd.choice(["first", "always", "later"])]
        inputs, n = script_inputs(it["script"], it["uti"], it["fms"], it["fault"], sites)
        job["cfg"]["N"] = n
        c = symex.ConcreteCtx(inputs)
        symex._CtxBase.cur = c
        try:
            H = run_robot(c, job)
            sym_res.append(dict(outcome=H.outcome[0], events=comparable_events(H.log.ev)))
        except Exception as e:  # noqa
            import traceback

            sym_res.append(dict(outcome="driver-error", events=[], error=traceback.format_exc()[-800:]))
        symex._CtxBase.cur = None
    d = tempfile.mkdtemp(prefix="verif_loopreal_", dir=os.environ.get("VERIF_TMP"))
    env = dict(os.environ, PYTHONDONTWRITEBYTECODE="1")

    def one(i):
        # one process per script: the HAL simulation keeps global state (clock, DS data)
        fin = os.path.join(d, f"in{i}.json")
        with open(fin, "w") as f:
            json.dump([items[i]], f)
        try:
            r = subprocess.run([sys.executable, os.path.join(world.VERIF, "real", "loop_real.py"), "real", fin], cwd=world.VERIF, env=env,
                               capture_output=True, text=True, timeout=180)
        except subprocess.TimeoutExpired:
            return dict(outcome="driver-timeout", events=[])
        for line in r.stdout.splitlines():
            if line.startswith("LOOPREAL "):
                return json.loads(line[9:])[0]
        return dict(outcome="driver-error", events=[], error=(r.stdout[-300:] + r.stderr[-1200:]))

    from concurrent.futures import ThreadPoolExecutor

    with ThreadPoolExecutor(8) as ex:
        real_res = list(ex.map(one, range(len(items))))
    shutil.rmtree(d, ignore_errors=True)

    def norm(evs):
        return [[e[0], e[1], e[2], (e[3] if e[3] not in ("?", "") else None)] if e[0] == "cb" else e for e in evs]

    for x in sym_res + real_res:
        x["events"] = norm(x["events"])
    problems, n_ok, notes = [], 0, []
    for it, a, b in zip(items, sym_res, real_res):
        if a["outcome"] == b["outcome"] and a["events"] == b["events"] and a["events"]:
            n_ok += 1
        elif b["outcome"] not in ("normal", "boom"):
            # the real-world driver itself failed (time-out under load, ...): not a statement about the stubs
            notes.append(f"real-world driver did not complete a script: {b['outcome']} {str(b.get('error'))[-300:]}")
        else:
            k = next((i for i, (x, y) in enumerate(zip(a["events"], b["events"])) if x != y), min(len(a["events"]), len(b["events"])))
            problems.append("loop stub validation: stubs and real wpilib disagree on " + json.dumps(dict(
                layout=it["job"]["layout"], script=it["script"], fms=it["fms"], uti=it["uti"], fault=it["fault"], sym_outcome=a["outcome"],
                real_outcome=b["outcome"], first_difference=k, sym=a["events"][max(0, k - 2):k + 3], real=b["events"][max(0, k - 2):k + 3],
                err=(a.get("error") or b.get("error"))))[:1800])
    samples = [dict(real_world_script=it["script"], layout=it["job"]["layout"], fms=it["fms"], fault=it["fault"], events=len(a["events"]))
               for it, a in list(zip(items, sym_res))[:3]]
    if n_ok == 0 and not problems:
        problems.append("loop stub validation: the real-world driver completed none of the scripts: " + "; ".join(notes[:2]))
    return dict(validated=n_ok, problems=problems, samples=samples, notes=notes)
