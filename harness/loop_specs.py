"""Specs for the MagicRobot loop properties C05, C06, C07 (C10, C11 in their own modules)."""
from engine.runner import Spec
from harness import loop_clauses as lc
from harness import loop_common as lcm

LOOP_STUBS = [
    "DriverStation: the control word may change arbitrarily at every refreshData() (free choice of mode); endCompetition() modelled as a flag flip at a refresh point",
    "hal notifier: waitForNotifierAlarm returns at max(now, alarm); FPGA time only advances there and by symbolic loop-body durations",
    "ntcore stub: one value per topic; SmartDashboard/LiveWindow/hal.observe*: no effect on the robot program",
    "SendableChooser stub returns the default option; SmartDashboard 'Auto Selector' string absent",
]
LOOP_ASSUME = [
    "robot layouts are the enumerated programs R1 (2 components), R2 (3 components, inherited hooks), R3 (inherited robot class), R4 (a StateMachine component between plain ones), R6 (components lacking some or all optional hooks declared first), R0 (no components)",
    "callbacks only log (and raise when the fault plan says so)",
    "single-threaded: endCompetition from another thread is a flag flip at a refresh point",
]


def mkjob(layout, N, auto_pkg=True, **kw):
    cfg = dict(N=N, auto_pkg=auto_pkg, fms=False, use_teleop_in_autonomous="sym")
    cfg.update(kw)
    return dict(layout=layout, cfg=cfg)


class LoopSpec(Spec):
    stubs = LOOP_STUBS
    assumptions = LOOP_ASSUME
    real_capable = False
    chunk = 100

    def bounds(self, tier):
        return dict(jobs=[dict(layout=j["layout"], **j["cfg"]) for j in self.jobs(tier)],
                    note="N = number of refreshData() calls with a free control word each, then shutdown")

    def extra(self, tier, seed):
        """Stub validation: random lock-step driver-station scripts through the stubs and through the real
        wpilib simulator (robot thread + DriverStationSim + stepped FPGA time); event logs must be identical."""
        r = lcm.validate_against_real(seed, 6 if tier == "quick" else 24)
        return dict(obligations=0, discharged=0, validated=r["validated"], problems=r["problems"], samples=r["samples"],
                    info=dict(loop_scripts_identical_in_stub_and_real_world=r["validated"], notes=r["notes"]))

    def trigger(self, viol, job):
        info = viol.get("info") or {}
        return dict(layout=job.get("layout"), site=info.get("site"))


class C05(LoopSpec):
    id = "C05"
    clauses = ["C05.order iteration-sequence", "C05.order iteration-mode", "C05.ntmode", "C05.timing never-early",
               "C05.timing exact", "C05.timing next"]
    outside = ["robot layouts beyond R1-R3", "more than N refreshes", "IEEE rounding of int(control_loop_wait_time*1e6) (concrete 0.02 here)",
               "real HAL notifier blocking and real NetworkTables transport (stub contracts)"]

    def jobs(self, tier):
        if tier == "quick":
            return [mkjob("R1", 4, True, sym_body=["periodic"]), mkjob("R2", 4, True), mkjob("R3", 4, False),
                    mkjob("R2", 3, False, sym_shutdown=True), mkjob("R1", 3, True, period="sym"),
                    mkjob("R3", 3, True, period=0.05, sym_body=["periodic"]), mkjob("R4", 3, True),
                    mkjob("R2", 3, True, fms=True, faults=1, fault_patterns=["later", "always"], fault_sites=["c1.execute", "c2.execute", "robot.teleopPeriodic"]),
                    # feedback publishers, own and inherited (R2: c2's class inherits c1's getter)
                    mkjob("R2", 3, True, with_feedbacks=True), mkjob("R6", 2, True), mkjob("R0", 4, True)]
        return [mkjob("R1", 5, True, sym_body=["periodic"]), mkjob("R2", 6, True), mkjob("R3", 6, False), mkjob("R2", 4, True, with_feedbacks=True), mkjob("R6", 4, True),
                mkjob("R2", 5, True, sym_shutdown=True), mkjob("R1", 4, True, raw_words=True),
                mkjob("R3", 3, True, change_at_dispatch=True), mkjob("R1", 4, True, period="sym", sym_body=["periodic"]),
                mkjob("R2", 4, True, period=0.005)]

    def reach_required(self, tier):
        return ["iteration-teleop", "iteration-auto", "iteration-disabled", "iteration-test", "timing-grid"]

    def path_fn(self, c, job):
        opts = {}
        if job["cfg"].get("with_feedbacks"):
            from harness.c10 import add_feedbacks

            opts["feedbacks"] = add_feedbacks
        H = lcm.run_robot(c, job, opts)
        c.prove("C05.run no-exception", H.outcome[0] == "normal", info=dict(outcome=str(H.outcome)))
        lc.clauses_structure(c, H, "C05", timing=True, lifecycle=False, order=True)
        lc.clauses_liveness(c, H, "C05")

    def twin(self, tier):
        def tfn(c, job):
            H = lcm.run_robot(c, job)
            pre, segs = lcm.parse(H.log)
            for sg in segs:
                for it in sg.iters:
                    c.prove("twin", "c1.execute" in lcm.sites(it.events))

        return [mkjob("R1", 2, True)], tfn


class C06(LoopSpec):
    id = "C06"
    clauses = ["C06.setup", "C06.enter", "C06.leave sequence", "C06.leave mode-left", "C06.bracket"]
    outside = C05.outside

    def jobs(self, tier):
        if tier == "quick":
            return [mkjob("R1", 4, True), mkjob("R2", 4, True, sym_shutdown=True), mkjob("R3", 4, False), mkjob("R4", 4, True), mkjob("R6", 3, True),
                    mkjob("R1", 3, True, with_feedbacks=True), mkjob("R3", 3, False, with_feedbacks=True),
                    mkjob("R2", 3, True, fms=True, faults=1, fault_patterns=["first", "always"],
                          fault_sites=["c1.on_disable", "c1.on_enable", "c2.on_disable", "c2.on_enable", "c1.execute", "c3.execute"]),
                    # a mode's own init hook fails (FMS): the mode is still entered and left like any other
                    mkjob("R1", 3, True, fms=True, faults=1, fault_patterns=["first", "always"],
                          fault_sites=["robot.autonomousInit", "robot.teleopInit", "robot.disabledInit", "robot.testInit", "auto.on_enable"])]
        return [mkjob("R1", 6, True), mkjob("R2", 5, True, sym_shutdown=True), mkjob("R3", 6, False),
                mkjob("R2", 4, True, raw_words=True), mkjob("R1", 3, True, change_at_dispatch=True), mkjob("R4", 5, True), mkjob("R6", 4, True),
                mkjob("R2", 4, True, fms=True, faults=2, fault_patterns=["first", "always"],
                      fault_sites=["c1.on_disable", "c1.on_enable", "c2.on_disable", "c2.on_enable", "c1.execute"]),
                mkjob("R1", 4, True, fms=True, faults=1, fault_patterns=["first", "later", "always"],
                      fault_sites=["robot.autonomousInit", "robot.teleopInit", "robot.disabledInit", "robot.testInit", "auto.on_enable"])]

    def reach_required(self, tier):
        return ["startup", "enter-teleop", "enter-auto", "enter-disabled", "enter-test", "execute-bracket",
                "direct-switch-between-enabled-modes"]

    def path_fn(self, c, job):
        opts = {}
        if job["cfg"].get("with_feedbacks"):
            from harness.c10 import add_feedbacks

            opts["feedbacks"] = add_feedbacks
        H = lcm.run_robot(c, job, opts)
        c.prove("C06.run no-exception", H.outcome[0] == "normal", info=dict(outcome=str(H.outcome)))
        if H.outcome[0] == "normal":
            lc.clauses_structure(c, H, "C06", timing=False, lifecycle=True, order=False)

    def twin(self, tier):
        def tfn(c, job):
            H = lcm.run_robot(c, job)
            c.prove("twin", "c1.on_enable" not in lcm.sites(H.log.ev))

        return [mkjob("R1", 2, True)], tfn


class C07(LoopSpec):
    id = "C07"
    clauses = ["C07.fms swallowed", "C07.order", "C07.enter", "C07.leave", "C07.live", "C07.nofms propagates"]
    outside = C05.outside + ["more than two simultaneously faulty callback sites", "faults in setup()/constructors (start-up, not covered by the statement)",
                             "exceptions that are not Exception subclasses"]

    def jobs(self, tier):
        if tier == "quick":
            return [mkjob("R1", 3, True, fms="sym", faults=1), mkjob("R2", 3, True, fms="sym", faults=1, use_teleop_in_autonomous=True),
                    mkjob("R3", 3, False, fms=True, faults=2, fault_patterns=["always"]),
                    mkjob("R1", 3, True, fms="per-refresh", faults=1, fault_patterns=["always"]),
                    # faults that are not Exception subclasses (SystemExit-like) are user-callback exceptions too
                    mkjob("R2", 3, True, fms="sym", faults=1, fault_patterns=["first"], fault_kind="base"),
                    mkjob("R1", 2, True, fms="sym", faults=1, fault_patterns=["first"], fault_kind="kbd",
                          fault_sites=["c1.execute", "robot.teleopPeriodic", "robot.disabledPeriodic", "auto.on_iteration", "c2.on_enable"]),
                    # a hook that is a C-implemented callable and raises (its traceback has no frame of its own)
                    mkjob("R1", 3, True, fms=True, c_raiser="c1.on_enable"), mkjob("R1", 2, True, fms=True, c_raiser="c1.on_disable"),
                    # two faulty sites without the FMS: the first exception ends the program, nothing else of the user's runs
                    mkjob("R1", 2, True, fms=False, faults=2, fault_patterns=["always"],
                          fault_sites=["auto.on_iteration", "c1.execute", "robot.teleopPeriodic", "c1.on_disable", "c2.on_disable", "auto.on_disable"]),
                    # any kind of exception (AttributeError, TypeError, KeyError, StopIteration, ...) at the lifecycle hooks
                    mkjob("R1", 2, True, fms="sym", faults=1, fault_patterns=["first"], fault_kind="any",
                          fault_sites=["c1.on_enable", "c2.on_disable", "c1.execute", "robot.teleopInit", "auto.on_enable"])]
        return [mkjob("R1", 4, True, fms="sym", faults=1), mkjob("R2", 4, True, fms="sym", faults=1),
                mkjob("R2", 3, True, fms=True, faults=2, fault_patterns=["always", "later"]),
                mkjob("R3", 4, False, fms="sym", faults=1, sym_shutdown=True),
                mkjob("R2", 3, True, fms="per-refresh", faults=1, fault_patterns=["always", "later"]),
                mkjob("R1", 4, True, fms="sym", faults=1, fault_patterns=["first", "always"], fault_kind="base"),
                mkjob("R2", 3, True, fms="sym", faults=1, fault_patterns=["first", "later"], fault_kind="any"),
                mkjob("R2", 3, True, fms=False, faults=2, fault_patterns=["always", "later"]),
                mkjob("R1", 4, True, fms=True, c_raiser="c1.on_enable"), mkjob("R1", 4, True, fms=True, c_raiser="c1.on_disable"),
                mkjob("R3", 3, True, fms=True, c_raiser="c1.execute")]

    def reach_required(self, tier):
        return ["fault-swallowed", "fault-propagated", "no-fault-fired", "iteration-auto", "iteration-teleop",
                "percall-all-swallowed", "percall-propagated-after-swallowed", "c-level-raiser"]

    def path_fn(self, c, job):
        H = lcm.run_robot(c, job)
        raised = [e for e in H.log.ev if e[0] == "raise"]
        fms = bool(H.fms)
        if not raised:
            c.reach("no-fault-fired")
            c.prove("C07.run no-exception-without-fault", H.outcome[0] == "normal", info=dict(outcome=str(H.outcome)))
            if job["cfg"].get("c_raiser"):
                c.reach("c-level-raiser")
                c.prove("C07.fms swallowed-robot-keeps-running", H.outcome[0] == "normal", info=dict(outcome=str(H.outcome)[:200], site=job["cfg"]["c_raiser"]))
                if H.outcome[0] == "normal":
                    lc.clauses_structure(c, H, "C07", timing=False, lifecycle=True, order=True)
                    lc.clauses_liveness(c, H, "C07")
            return
        first_site = raised[0][1]
        if job["cfg"].get("fms") == "per-refresh":
            # the answer of the FMS query that follows each raise decides: swallowed (True) or propagated (False)
            ev = H.log.ev
            verdicts = []
            for i, e in enumerate(ev):
                if e[0] == "raise":
                    q = next((x for x in ev[i + 1:] if x[0] in ("fms", "raise")), None)
                    verdicts.append((e, bool(q[2]) if q is not None and q[0] == "fms" else None))
            first_unattached = next((e for e, v in verdicts if v is False), None)
            if any(v is None for _, v in verdicts[:-1]):
                c.prove("C07.percall every-exception-consults-the-fms-flag", False, info=dict(site=first_site))
            if first_unattached is None:
                c.reach("percall-all-swallowed")
                c.prove("C07.fms swallowed-robot-keeps-running", H.outcome[0] == "normal" and all(v for _, v in verdicts),
                        info=dict(outcome=H.outcome[0], site=first_site))
                if H.outcome[0] == "normal":
                    lc.clauses_structure(c, H, "C07", timing=False, lifecycle=True, order=True)
            else:
                c.reach("percall-propagated-after-swallowed" if verdicts[0][1] else "percall-propagated")
                ok = H.outcome[0] == "boom" and id(H.outcome[1]) == first_unattached[2] and verdicts[-1][0] is first_unattached
                c.prove("C07.nofms propagates-same-exception", ok, info=dict(outcome=H.outcome[0], site=first_unattached[1], raised=len(raised)))
            return
        if fms:

            c.reach("fault-swallowed")
            c.prove("C07.fms swallowed-robot-keeps-running", H.outcome[0] == "normal",
                    info=dict(outcome=H.outcome[0], site=first_site, sites=sorted({e[1] for e in raised})))
            if H.outcome[0] == "normal":
                lc.clauses_structure(c, H, "C07", timing=False, lifecycle=True, order=True)
                lc.clauses_liveness(c, H, "C07")
        else:
            c.reach("fault-propagated")
            ok = H.outcome[0] == "boom" and id(H.outcome[1]) == raised[0][2] and len(raised) == 1
            c.prove("C07.nofms propagates-same-exception", ok, info=dict(outcome=H.outcome[0], site=first_site, raised=len(raised)))

    def trigger(self, viol, job):
        info = viol.get("info") or {}
        return dict(layout=job.get("layout"), site=info.get("site"))

    def twin(self, tier):
        def tfn(c, job):
            H = lcm.run_robot(c, job)
            c.prove("twin", H.outcome[0] == "normal")

        return [mkjob("R1", 2, True, fms="sym", faults=1)], tfn
