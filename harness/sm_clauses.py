"""Clauses of C01-C04 over a recorded StateMachine history (see DESIGN.md §7).

Every clause is traceable to a phrase of the property statement; nothing beyond the
statements is asserted.  ``c.prove(label, cond, when=ante)`` is an obligation over *all* values
of the symbolic inputs on the current path.
"""
from engine.symex import s_and, s_close, s_eq, s_implies, s_not, s_or
from harness.sm_common import (any_ext_stop, engage_start_target, engaged_in, expected_current,
                               first_state, last_call, running_after, stop_after_engage)


def _in_state_done(it):
    return any(x.action == "done" for x in it.calls)


def _state_done_or_ext(it):
    return bool(it.done_seqs)


# ---------------------------------------------------------------------------------------
# C01
# ---------------------------------------------------------------------------------------


def clauses_c01(c, H):
    meta = H.meta
    iters = H.iters
    stopped = True  # machine starts stopped
    for i, it in enumerate(iters):
        eng = engaged_in(it)
        if it.raised:
            c.prove("C01.no-exception", False, info=dict(iteration=i, exc=it.raised))
            continue
        # (2') an external done()/on_disable() that is not followed by another engage() stops the machine whatever was
        # requested before it in the same loop: only the default state may run
        if any_ext_stop(it) and (not eng or stop_after_engage(it)):
            c.reach("external-stop-after-request")
            c.prove("C01.2 stopped-only-default", all(x.kind == "default" for x in it.calls),
                    info=dict(iteration=i, ext=it.ext, calls=[x.name for x in it.calls]))
        # (1) regular state invoked => engage() since the previous iteration
        for x in it.calls:
            if x.kind == "regular":
                c.reach("regular-invoked")
                c.prove("C01.1 regular-needs-engage", eng, info=dict(iteration=i, state=x.name))
        # (2) no engage: only must_finish/default may run; once not inside a must_finish state the
        #     machine is stopped and only the default state runs until the next engage()
        if not eng:
            if stopped:
                for x in it.calls:
                    c.reach("stopped-iteration-with-default" if x.kind == "default" else "stopped-iteration-nondefault")
                    c.prove("C01.2 stopped-only-default", x.kind == "default", info=dict(iteration=i, state=x.name))
                if not it.calls:
                    c.reach("suppressed-no-engage")
                    c.prove("C01.2 stopped-only-default", True)
            L = last_call(it)
            if L is not None and L.kind == "default" and L.action == "next_state" and meta[L.target]["kind"] == "must_finish":
                # the default state itself sent the machine into a must_finish state: from here on the machine is
                # inside a must_finish state again (sentence 1 of the statement exempts those from engage())
                stopped = False
            elif L is None or L.kind == "default" or L.action == "done":
                stopped = True
            elif L.kind == "must_finish" and L.action in ("none",):
                stopped = False
            else:
                # a must_finish state requested a transition; whether the machine counts as
                # "inside a must_finish state" now depends on the target: decided next iteration
                tgt = L.target if L.action == "next_state" else None
                stopped = False if tgt is None else (meta[tgt]["kind"] != "must_finish")
                if tgt is not None and stopped:
                    # target is regular: it may not run without engage (clause 1 covers that) but the
                    # stopped-only-default clause would also forbid must_finish states; that is right:
                    # the machine is no longer inside a must_finish state.
                    pass
        else:
            stopped = False if running_after(it) else True
            # (3) engaged and done() not called: exactly one state function (+1 per next_state_now)
            if not stop_after_engage(it) and not _in_state_done(it):
                c.reach("engaged-iteration")
                n_nsn = 0
                for x in it.calls:
                    if x.action == "nsn":
                        n_nsn += 1
                    elif x.action == "nsn2":
                        n_nsn += 2
                        c.reach("double-nsn")
                c.prove("C01.3 one-state-per-engaged-iteration", len(it.calls) == 1 + n_nsn,
                        info=dict(iteration=i, calls=[x.name for x in it.calls], nsn=n_nsn))


# ---------------------------------------------------------------------------------------
# C04
# ---------------------------------------------------------------------------------------


def clauses_c04(c, H):
    meta = H.meta
    iters = H.iters
    prev_run = False
    prev_cur = None
    for i, it in enumerate(iters):
        if it.raised:
            c.prove("C04.no-exception", False, info=dict(iteration=i, exc=it.raised))
            return
        # (1) after an external done()/on_disable() no regular state runs until engage() is called *again*
        if any_ext_stop(it) and (not engaged_in(it) or stop_after_engage(it)):
            c.reach("external-stop-not-followed-by-engage")
            c.prove("C04.1 nothing-regular-after-stop-until-engage", all(x.kind == "default" for x in it.calls),
                    info=dict(iteration=i, ext=it.ext, calls=[x.name for x in it.calls]))
        L = last_call(it)
        run = running_after(it)
        is_exec, cur_attr, cur_nt = it.after
        if not run:
            c.reach("not-running-after-iteration")
            if L is not None and L.kind == "default":
                c.reach("default-fallback")
            # (1) stopped: is_executing False, current_state ""
            c.prove("C04.1 stopped-flags", s_and(s_not(is_exec), cur_attr == "", cur_nt == ""),
                    info=dict(iteration=i, is_executing=is_exec, current_state=cur_attr, nt=cur_nt,
                              last=L.name if L else None))
            # (1) done() invoked when it stops
            if prev_run or engaged_in(it):
                c.reach("stop-event")
                c.prove("C04.1 done-invoked-on-stop", len(it.done_seqs) > 0,
                        info=dict(iteration=i, ext=it.ext, calls=[x.name for x in it.calls]))
        else:
            # (3) running: is_executing True and current_state names the state the machine is in
            exp = expected_current(it)
            c.reach("running-after-iteration")
            c.prove("C04.3 running-flags", s_and(is_exec, cur_attr == exp, cur_nt == exp),
                    info=dict(iteration=i, is_executing=is_exec, current_state=cur_attr, expected=exp))
        # (1) stop by expiry of the last timed state -> done() invoked (even when it restarts at once)
        if prev_run and not any_ext_stop(it) and prev_cur is not None:
            pm = meta[prev_cur]
            pl = last_call(iters[i - 1])
            if pm["timed"] and pm["next_state"] is None and pl.name == prev_cur and pl.action == "none" \
                    and not any(f for _, _, f in it.ext):
                first = it.calls[0] if it.calls else None
                left = first is None or first.name != prev_cur or first.ic is True
                # `first.ic is True` is only decidable when concrete; symbolic ic is handled below
                if first is not None and first.name == prev_cur and not isinstance(first.ic, bool):
                    left = first.ic
                c.reach("last-timed-state-left")
                c.prove("C04.1 done-invoked-on-expiry", len(it.done_seqs) > 0, when=left,
                        info=dict(iteration=i, state=prev_cur))
        # (2) the next engage() starts at first / initial_state with initial_call True and tm == 0
        if not prev_run and engaged_in(it) and not stop_after_engage(it):
            tgt = engage_start_target(it, meta, False, None)
            if meta[tgt]["kind"] != "default":
                c.reach("re-engage" if i > 0 else "first-engage")
                first = it.calls[0] if it.calls else None
                ok = first is not None and first.name == tgt
                c.prove("C04.2 engage-starts-at-first-or-initial", ok,
                        info=dict(iteration=i, expected=tgt, got=first.name if first else None))
                if ok:
                    c.prove("C04.2 engage-initial_call", first.ic, info=dict(iteration=i))
                    c.prove("C04.2 engage-tm-zero", s_eq(first.tm, 0), info=dict(iteration=i, tm=first.tm))
        prev_run = run
        prev_cur = expected_current(it) if run else None


def clauses_forced_engage(c, H, P):
    """engage(force=True[, initial_state]) always (re-)enters its target: the target's next call is a first
    call (initial_call True, state_tm 0), also when the machine is already running that very state."""
    meta = H.meta
    first = first_state(meta)
    for i, it in enumerate(H.iters):
        if it.raised is not None:
            return
        forced = [j for j, (op, _, f) in enumerate(it.ext) if op == "engage" and f]
        if not forced:
            continue
        j = forced[-1]
        if any(op in ("done", "on_disable") for op, _, _ in it.ext[j + 1:]):
            continue
        tgt = it.ext[j][1] or first
        if meta[tgt]["kind"] == "default":
            continue
        was_in_target = i > 0 and running_after(H.iters[i - 1]) and expected_current(H.iters[i - 1]) == tgt
        c.reach("forced-engage")
        if was_in_target:
            c.reach("forced-engage-into-running-state")
        x0 = it.calls[0] if it.calls else None
        ok = x0 is not None and x0.name == tgt
        c.prove(f"{P}.force forced-engage-runs-target", ok, info=dict(iteration=i, expected=tgt, got=x0.name if x0 else None))
        if ok:
            c.prove(f"{P}.force forced-engage-is-a-fresh-entry", s_and(x0.ic, s_eq(x0.state_tm, 0)),
                    info=dict(iteration=i, state=tgt, already_running_it=was_in_target))


# ---------------------------------------------------------------------------------------
# timing clauses shared by C02 / C03 / C13
# ---------------------------------------------------------------------------------------


def _plain_engaged(H, it):
    if H.cfg.get("asm"):
        return it.asm_op == "on_iteration" and it.asm_active
    ops = [e for e in it.ext if e[0] != "none"]
    return len(ops) > 0 and all(e == ("engage", None, False) for e in ops)


def _track_after(H, it, origin, s0, d0):
    """Machine description after iteration ``it`` (origin known; the first call's entry is (s0,d0)).
    None when the timing clauses cannot be applied to the next iteration."""
    meta = H.meta
    calls = it.calls
    if not calls or not running_after(it):
        return None
    if any(x.action in ("done", "done_next") for x in calls[:-1]):
        return None  # stopped and started again inside one iteration (outside the claim): origin unknown
    L = calls[-1]
    if L.action == "next_state":
        return dict(origin=origin, state=L.target, entered=False, s=None, d=None)
    if L.action != "none":
        return None
    if len(calls) == 1:
        return dict(origin=origin, state=L.name, entered=True, s=s0, d=d0)
    # nested next_state_now chain: every outer call must have delegated, L was freshly entered
    for x in calls[:-1]:
        if x.action not in ("nsn", "nsn2"):
            return None
    return dict(origin=origin, state=L.name, entered=True, s=L.tm, d=(L.dur if meta[L.name]["timed"] else None))


def _nested_clauses(c, H, it, origin, P):
    """Invocations made through next_state_now: tm measured from the same origin at the nested clock
    read, freshly entered (initial_call, state_tm == 0)."""
    for a, b in zip(it.calls, it.calls[1:]):
        if a.action in ("done", "done_next"):
            # the machine was stopped inside this iteration: a later next_state_now() of the still-running outer
            # state function starts it again, with a new origin (done();next_state_now() in one invocation is outside the claim)
            break
        if b.depth > 0 and b.kind != "default":
            c.reach("nested-call")
            c.prove(f"{P}.tm-origin", s_eq(b.tm, b.now - origin), info=dict(iteration=it.idx, state=b.name, nested=True))
            c.prove(f"{P}.ic next_state_now-initial", b.ic, info=dict(iteration=it.idx, state=b.name))
            c.prove(f"{P}.state_tm-from-entry", s_eq(b.state_tm, 0), info=dict(iteration=it.idx, state=b.name, nested=True))


def timing_clauses(c, H, P):
    """Clauses over consecutive plainly-engaged iterations: the duration / expiry / anti-drift /
    restart rules of C02 and the tm / state_tm / initial_call values of C03."""
    meta = H.meta
    iters = H.iters
    first = first_state(meta)
    T = None
    for i, it in enumerate(iters):
        if it.raised:
            c.prove(f"{P}.no-exception", False, info=dict(iteration=i, exc=it.raised))
            return
        calls = it.calls
        for x in calls:
            if x.kind != "default":
                c.prove(f"{P}.4 state_tm-nonneg", x.state_tm >= 0, info=dict(iteration=i, state=x.name, state_tm=x.state_tm))
                c.prove(f"{P}.4 tm-nonneg", x.tm >= 0, info=dict(iteration=i, state=x.name))
        if not _plain_engaged(H, it):
            T = None
            continue
        now = it.now
        x0 = calls[0] if calls else None
        if T is None:
            was_running = i > 0 and running_after(iters[i - 1])
            if H.cfg.get("asm"):
                was_running = not it.asm_fresh
            if was_running:
                continue  # origin unknown (e.g. after a forced engage): nothing asserted here
            # first iteration of an engagement
            c.reach("engagement-start")
            ok = x0 is not None and x0.name == first
            c.prove(f"{P}.start first-state-runs", ok, info=dict(iteration=i, got=x0.name if x0 else None))
            if not ok:
                continue
            c.prove(f"{P}.start tm-zero", s_eq(x0.tm, 0), info=dict(iteration=i, tm=x0.tm))
            c.prove(f"{P}.start initial_call", x0.ic, info=dict(iteration=i))
            c.prove(f"{P}.start state_tm-zero", s_eq(x0.state_tm, 0), info=dict(iteration=i))
            _nested_clauses(c, H, it, now, P)
            T = _track_after(H, it, now, 0, x0.dur if meta[first]["timed"] else None)
            continue
        origin, st, entered, s, d = T["origin"], T["state"], T["entered"], T["s"], T["d"]
        if x0 is None:
            if H.cfg.get("asm") and entered and d is not None and meta[st]["next_state"] is None and now is not None:
                # AutonomousStateMachine: the last timed state may only end by expiry, after which nothing runs
                c.reach("asm-finished-by-expiry")
                c.prove(f"{P}.1 stays-until-expiry", (now - origin) > s + d,
                        info=dict(iteration=i, state=st, note="machine finished although tm <= s+d"))
            else:
                c.prove(f"{P}.1 engaged-state-runs", False, info=dict(iteration=i, expected=st))
            T = None
            continue
        tm_exp = now - origin
        if not entered:
            # requested by next_state(): runs now whatever the clock says, as a fresh entry
            c.reach("requested-state-runs")
            ok = x0.name == st
            c.prove(f"{P}.3 requested-state-runs", ok, info=dict(iteration=i, expected=st, got=x0.name))
            if not ok:
                T = None
                continue
            c.prove(f"{P}.ic entered-initial", x0.ic, info=dict(iteration=i, state=st))
            c.prove(f"{P}.tm-origin", s_eq(x0.tm, tm_exp), info=dict(iteration=i, state=st))
            c.prove(f"{P}.state_tm-from-entry", s_eq(x0.state_tm, 0), info=dict(iteration=i, state=st))
            _nested_clauses(c, H, it, origin, P)
            T = _track_after(H, it, origin, tm_exp, x0.dur if meta[st]["timed"] else None)
            continue
        if d is None:
            c.reach("untimed-continues")
            ok = x0.name == st
            c.prove(f"{P}.1 untimed-continues", ok, info=dict(iteration=i, expected=st, got=x0.name))
            if not ok:
                T = None
                continue
            c.prove(f"{P}.ic consecutive-not-initial", s_not(x0.ic), info=dict(iteration=i, state=st))
            c.prove(f"{P}.tm-origin", s_eq(x0.tm, tm_exp), info=dict(iteration=i, state=st))
            c.prove(f"{P}.state_tm-from-entry", s_eq(x0.state_tm, tm_exp - s), info=dict(iteration=i, state=st))
            _nested_clauses(c, H, it, origin, P)
            T = _track_after(H, it, origin, s, d)
            continue
        # timed state that has run and requested no transition: the expiry rule
        expired = tm_exp > s + d
        nxt = meta[st]["next_state"]
        c.reach("timed-pair")
        reentered = x0.name == st and nxt == st and x0.ic is True
        if x0.name == st and not reentered:
            c.reach("timed-stays")
            c.prove(f"{P}.2 hands-over-after-expiry", s_not(expired),
                    info=dict(iteration=i, state=st, note="state ran again although tm > s+d"))
            c.prove(f"{P}.ic consecutive-not-initial", s_not(x0.ic), info=dict(iteration=i, state=st))
            c.prove(f"{P}.1 same-entry", s_eq(x0.tm - x0.state_tm, s), info=dict(iteration=i, state=st))
            c.prove(f"{P}.tm-origin", s_eq(x0.tm, tm_exp), info=dict(iteration=i, state=st))
            _nested_clauses(c, H, it, origin, P)
            T = _track_after(H, it, origin, s, d)
            continue
        # the state was left (or re-entered through its own next_state): only allowed when tm > s+d
        c.reach("timed-expired")
        c.prove(f"{P}.1 stays-until-expiry", expired,
                info=dict(iteration=i, state=st, got=x0.name, note="state left although tm <= s+d"))
        if nxt is not None:
            ok = x0.name == nxt
            c.prove(f"{P}.2 successor-runs", ok, info=dict(iteration=i, expected=nxt, got=x0.name))
            if not ok:
                T = None
                continue
            c.prove(f"{P}.ic entered-initial", x0.ic, info=dict(iteration=i, state=nxt))
            c.prove(f"{P}.2 successor-starts-at-expiry", s_eq(x0.tm - x0.state_tm, s + d),
                    info=dict(iteration=i, state=nxt, start=x0.tm - x0.state_tm))
            c.prove(f"{P}.tm-origin", s_eq(x0.tm, tm_exp), info=dict(iteration=i, state=nxt))
            _nested_clauses(c, H, it, origin, P)
            T = _track_after(H, it, origin, s + d, x0.dur if meta[nxt]["timed"] else None)
            continue
        # last timed state expired while still engaged
        if H.cfg.get("asm"):
            c.reach("asm-call-in-finishing-iteration")
            c.prove(f"{P}.finish no-state-after-last-expiry", False,
                    info=dict(iteration=i, state=st, called=x0.name, kind=x0.kind))
            T = None
            continue
        c.reach("restart")
        ok = x0.name == first
        c.prove(f"{P}.5 restart-at-first", ok, info=dict(iteration=i, got=x0.name))
        if not ok:
            T = None
            continue
        new_origin = origin + s + d
        c.prove(f"{P}.ic entered-initial", x0.ic, info=dict(iteration=i, state=first, restart=True))
        c.prove(f"{P}.5 restart-tm-from-expiry", s_eq(x0.tm, now - new_origin), info=dict(iteration=i, tm=x0.tm))
        c.prove(f"{P}.5 restart-state-entered-at-zero", s_eq(x0.tm - x0.state_tm, 0), info=dict(iteration=i))
        _nested_clauses(c, H, it, new_origin, P)
        T = _track_after(H, it, new_origin, 0, x0.dur if meta[first]["timed"] else None)


# ---------------------------------------------------------------------------------------
# C03 (b): default-state arguments on the general history space
# ---------------------------------------------------------------------------------------


def clauses_c03_default(c, H):
    """Default state: initial_call True on the first call after each fallback and False on consecutive
    calls; state_tm non-negative, non-decreasing and measured from one entry instant."""
    iters = H.iters
    prev = None  # previous iteration's single default call, if the machine stayed in the default state
    for i, it in enumerate(iters):
        if it.raised:
            return
        dcalls = [x for x in it.calls if x.kind == "default"]
        for x in dcalls:
            c.prove("C03.nonneg default-state_tm", x.state_tm >= 0, info=dict(iteration=i, state_tm=x.state_tm))
        only_default = len(it.calls) == 1 and len(dcalls) == 1
        quiet = not [e for e in it.ext if e[0] != "none"]
        if only_default and prev is not None and quiet:
            x = dcalls[0]
            c.reach("default-consecutive")
            c.prove("C03.ic default-consecutive-not-initial", s_not(x.ic), info=dict(iteration=i))
            c.prove("C03.mono default-state_tm", x.state_tm >= prev.state_tm, info=dict(iteration=i))
            c.prove("C03.state_tm default-from-entry", s_eq(x.now - x.state_tm, prev.now - prev.state_tm), info=dict(iteration=i))
        elif dcalls and prev is None:
            x = dcalls[0]
            before = iters[i - 1].calls if i > 0 else []
            if i == 0 or (before and before[-1].kind != "default"):
                c.reach("default-fallback")
                c.prove("C03.ic default-fallback-initial", x.ic, info=dict(iteration=i))
        prev = dcalls[0] if only_default else None


# ---------------------------------------------------------------------------------------
# C13
# ---------------------------------------------------------------------------------------


def clauses_c13(c, H):
    """on_enable / on_iteration / on_disable protocol of AutonomousStateMachine."""
    iters = H.iters
    phase = "off"  # off | fresh | running | finished
    for i, it in enumerate(iters):
        if it.raised:
            c.prove("C13.no-exception", False, info=dict(iteration=i, op=it.asm_op, exc=it.raised))
            return
        is_exec = it.after[0]
        if it.asm_op == "on_enable":
            phase = "fresh"
            continue
        if it.asm_op == "on_disable":
            c.reach("disabled")
            c.prove("C13.disable stops-immediately", s_and(s_not(is_exec), len(it.calls) == 0), info=dict(iteration=i))
            phase = "off"
            continue
        # on_iteration
        if phase in ("off", "finished"):
            c.reach("iteration-after-finish" if phase == "finished" else "iteration-while-disabled")
            c.prove("C13.finish nothing-runs-until-next-enable", len(it.calls) == 0,
                    info=dict(iteration=i, phase=phase, calls=[x.name for x in it.calls]))
            c.prove("C13.finish is_executing-stays-false", s_not(is_exec), info=dict(iteration=i, phase=phase))
            continue
        # fresh or running: behaves as an engaged StateMachine iteration
        nondefault = [x for x in it.calls if x.kind != "default"]
        user_done = any(x.action == "done" for x in it.calls)
        if phase == "fresh":
            c.reach("first-iteration-after-enable")
            ok = bool(it.calls) and it.calls[0].name == first_state(H.meta)
            c.prove("C13.enable starts-at-first-state", ok, info=dict(iteration=i, calls=[x.name for x in it.calls]))
            if ok:
                c.prove("C13.enable tm-zero", s_eq(it.calls[0].tm, 0), info=dict(iteration=i))
                c.prove("C13.enable initial_call", it.calls[0].ic, info=dict(iteration=i))
        if running_after(it):
            c.reach("asm-running")
            n_nsn = sum(1 if x.action == "nsn" else 2 if x.action == "nsn2" else 0 for x in it.calls)
            c.prove("C13.run one-state-per-iteration", len(it.calls) == 1 + n_nsn, info=dict(iteration=i, calls=[x.name for x in it.calls]))
            c.prove("C13.run is_executing", is_exec, info=dict(iteration=i))
            phase = "running"
        else:
            c.reach("asm-finished")
            if user_done:
                c.reach("asm-finished-by-done")
            c.prove("C13.finish is_executing-false", s_not(is_exec), info=dict(iteration=i))
            c.prove("C13.finish done-invoked", len(it.done_seqs) > 0, info=dict(iteration=i))
            phase = "finished"


# ---------------------------------------------------------------------------------------
# Layer B (advisory): one step from an arbitrary state under the representation invariant
# ---------------------------------------------------------------------------------------


def clauses_step(c, H, pre, post, P):
    it = H.iters[0]
    eng = engaged_in(it)
    c.reach("inductive-step")
    c.prove(f"{P}.step no-exception", it.raised is None, info=dict(exc=it.raised, pre=pre))
    for x in it.calls:
        if x.kind == "regular":
            c.prove(f"{P}.step regular-needs-engage", eng, info=dict(state=x.name, pre=pre, ext=it.ext))
    if not eng:
        L = last_call(it)
        if L is None or L.kind == "default" or L.action == "done":
            is_exec, cur_attr, _ = it.after
            c.prove(f"{P}.step stopped-flags", s_and(s_not(is_exec), cur_attr == ""), info=dict(pre=pre, ext=it.ext))
    # the invariant is re-established: request flag cleared, untimed states entered in this step never expire
    c.prove(f"{P}.step invariant-request-flag-cleared", post["should_engage"] is False, info=dict(pre=pre))
    if not any(x.action == "done" and x.target for x in it.calls):
        is_exec, cur_attr, _ = it.after
        c.prove(f"{P}.step invariant-engaged-iff-inside-a-state", s_eq(is_exec, cur_attr != ""), info=dict(pre=pre, ext=it.ext))
    for n, ran, ex, st in post["untimed_ok"]:
        c.prove(f"{P}.step invariant-untimed-never-expires", s_eq(ex, st + 0xFFFFFFFF), when=ran, info=dict(state=n))
