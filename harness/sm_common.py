"""Shared StateMachine history harness (C01, C02, C03, C04, C13).

Programs (machine *shapes*) are concrete and enumerated; everything that happens to them is
symbolic: the external call before every iteration, the action a state function takes, every
clock advance and every duration.  The real ``magicbot.state_machine`` code runs on those values.
"""
import itertools

from engine import symex as sx
from engine import world
from engine.symex import s_and, s_eq, s_implies, s_not, s_or

PERMS = list(itertools.permutations(("tm", "state_tm", "initial_call")))

# shape := ordered list of (name, decorator kind, options)
#   kind: "state" | "timed" | "default";  options: first, must_finish, duration, next_state
SHAPES = {
    # plain chain: untimed first -> timed -> untimed
    "S1": [
        ("a", "state", dict(first=True)),
        ("b", "timed", dict(duration=1.0, next_state="c")),
        ("c", "state", dict()),
    ],
    # two timed states, last without successor (restart cycle when continuously engaged)
    "S2": [
        ("a", "timed", dict(first=True, duration=0.25, next_state="b")),
        ("b", "timed", dict(duration=0.5)),
    ],
    # must_finish plain and timed states
    "S3": [
        ("a", "state", dict(first=True)),
        ("b", "timed", dict(duration=1.0, next_state="m")),
        ("m", "timed", dict(duration=1.0, must_finish=True, next_state="p")),
        ("p", "state", dict()),
        ("q", "state", dict(must_finish=True)),
    ],
    # S1 + default state
    "S4": [
        ("a", "state", dict(first=True)),
        ("b", "timed", dict(duration=1.0, next_state="c")),
        ("c", "state", dict()),
        ("d", "default", dict()),
    ],
    # timed self loop
    "S6": [
        ("a", "timed", dict(first=True, duration=0.5, next_state="a")),
    ],
    # three timed states in a chain, last without successor
    "S7": [
        ("a", "timed", dict(first=True, duration=0.25, next_state="b")),
        ("b", "timed", dict(duration=0.5, next_state="c")),
        ("c", "timed", dict(duration=0.125)),
    ],
    # last timed state with duration 0 (the run-exactly-once idiom)
    "S10": [
        ("a", "timed", dict(first=True, duration=0.25, next_state="b")),
        ("b", "timed", dict(duration=0)),
    ],
    # the last timed state is also must_finish (and has no successor)
    "S11": [
        ("a", "timed", dict(first=True, duration=0.25, next_state="b")),
        ("b", "timed", dict(duration=0.5, must_finish=True)),
    ],
    # timed chain ending in a default-state machine (stop-by-expiry with a default state)
    "S8": [
        ("a", "timed", dict(first=True, duration=0.25, next_state="b")),
        ("b", "timed", dict(duration=0.5, must_finish=True)),
        ("d", "default", dict()),
    ],
}
# S12 (diamond: Base.w is must_finish, the left arm redefines it as a regular state, M(Left, Right)),
# S9 (a timed state redefined in a subclass with another duration) and
# S5 (inheritance / mix-in with an overridden state) are built specially in build_class.
S12_META = [
    ("a", "state", dict(first=True)),
    ("w", "state", dict()),  # the redefinition in Left wins over Base's must_finish version (MRO: M, Left, Right, Base)
    ("r", "timed", dict(duration=0.5, must_finish=True, next_state="w")),
]
S9_META = [
    ("a", "timed", dict(first=True, duration=0.25, next_state="b")),
    ("b", "timed", dict(duration=2.0, next_state="a")),  # redefinition of the base's b (duration 0.5)
]
S5_META = [
    ("a", "state", dict(first=True)),
    ("b", "state", dict(must_finish=True)),  # overrides the base's timed b
    ("c", "state", dict()),
    ("e", "timed", dict(duration=0.5, next_state="a")),  # from the mix-in
]


def shape_spec(shape):
    return S5_META if shape == "S5" else S9_META if shape == "S9" else S12_META if shape == "S12" else SHAPES[shape]


class Call:
    __slots__ = ("it", "name", "kind", "tm", "state_tm", "ic", "now", "depth", "action", "target", "seq", "dur")

    def __init__(self, **kw):
        for k, v in kw.items():
            setattr(self, k, v)

    def desc(self):
        return [self.it, self.name, sx.concretize_desc(self.tm), sx.concretize_desc(self.state_tm),
                sx.concretize_desc(self.ic), self.action, self.target]


class Iter:
    def __init__(self, idx):
        self.idx = idx
        self.ext = []  # (op, target, force)
        self.now = None  # clock value read by the outer execute()
        self.calls = []
        self.done_seqs = []  # sequence numbers of done() invocations (externals included)
        self.after = None  # (is_executing, current_state attr, current_state NT)
        self.start_seq = None
        self.exec_seq = None
        self.durs = {}
        self.raised = None


class Recorder:
    """Receives every state-function invocation and decides the in-state action."""

    def __init__(self, c, meta, cfg):
        self.c = c
        self.meta = meta
        self.cfg = cfg
        self.iters = []
        self.seq = 0
        self.depth = 0
        self.budget = cfg.get("act_budget", 0)
        self.maxdepth = cfg.get("nsn_depth", 1)
        self.clock = None
        self.ncalls = 0
        self.sm = None
        self.other_calls = 0

    def nextseq(self):
        self.seq += 1
        return self.seq

    def cur(self):
        return self.iters[-1]

    def on_done(self, sm=None):
        if sm is not None and sm is not self.sm and self.sm is not None:
            return
        self.cur().done_seqs.append(self.nextseq())

    def call(self, sm, name, tm, state_tm, ic):
        c = self.c
        if sm is not self.sm and self.sm is not None:
            self.other_calls += 1  # a second instance of the same class (twin): not the machine under observation
            return
        it = self.cur()
        m = self.meta[name]
        self.ncalls += 1
        if self.ncalls > 12:
            c.set_poison("runaway recursion in state invocation")
            return
        dur = None
        if m["timed"]:
            dur = self.durations.get(name)
        call = Call(it=it.idx, name=name, kind=m["kind"], tm=tm, state_tm=state_tm, ic=ic, now=self.clock.t,
                    depth=self.depth, action="none", target=None, seq=self.nextseq(), dur=dur)
        it.calls.append(call)
        if m["kind"] == "default":
            # a default state (e.g. one watching a sensor) may request a transition, nothing else
            if self.cfg.get("default_acts") and self.budget > 0:
                tg = self.cfg["targets"]
                k = c.choose(f"dact{self.ncalls}", len(tg) + 1)
                if k:
                    self.budget -= 1
                    call.action, call.target = "next_state", tg[k - 1]
                    c.reach("default-state-requests-transition")
                    sm.next_state(tg[k - 1])
            return
        if self.budget <= 0:
            return
        targets = self.cfg["targets"]
        allow_nsn = self.depth < self.maxdepth
        menu = ["none", "done"] + [("next_state", t) for t in targets]
        if self.cfg.get("done_then_next"):
            menu += [("done_next", t) for t in targets[:2]]
        if self.cfg.get("force_acts"):
            # "start over / jump" written as engage(force=True[, initial_state]) inside a state function: the same as
            # next_state(<first or given state>) - the machine's clock keeps running
            menu += [("eforce", None)] + [("eforce", t) for t in targets[:1]]
        if allow_nsn:
            menu += [("nsn", t) for t in targets]
            if self.cfg.get("double_nsn") and len(targets) >= 2:
                menu.append(("nsn2", targets[0], targets[1]))
        k = c.choose(f"act{self.ncalls}", len(menu))
        a = menu[k]
        if a == "none":
            return
        self.budget -= 1
        if a == "done":
            call.action = "done"
            sm.done()
            return
        if a[0] == "next_state":
            call.action, call.target = "next_state", a[1]
            sm.next_state(a[1])
            return
        if a[0] == "eforce":
            tgt = a[1] or first_state(self.meta)
            call.action, call.target = "next_state", tgt
            c.reach("forced-engage-inside-a-state")
            if a[1] is None:
                sm.engage(force=True)
            else:
                sm.engage(initial_state=a[1], force=True)
            return
        if a[0] == "done_next":
            # done() and then (a forgotten return) a transition request in the same invocation
            call.action, call.target = "done", a[1]
            sm.done()
            sm.next_state(a[1])
            return
        if a[0] == "nsn":
            call.action, call.target = "nsn", a[1]
            self.depth += 1
            try:
                sm.next_state_now(a[1])
            finally:
                self.depth -= 1
            return
        if a[0] == "nsn2":
            call.action, call.target = "nsn2", (a[1], a[2])
            self.depth += 1
            try:
                sm.next_state_now(a[1])
                sm.next_state_now(a[2])
            finally:
                self.depth -= 1


class Clock:
    """Nondeterministic non-decreasing clock: every read = previous + fresh delta >= 0."""

    def __init__(self, c):
        self.c = c
        self.n = 0
        self.t = c.real("t0", 0, 1000)
        self.reads = []

    def now_s(self):
        self.n += 1
        d = self.c.real(f"dt{self.n}", 0, 1000)
        self.t = self.t + d
        self.reads.append(self.t)
        return self.t


class SMEnv:
    ds_attached = True
    word = (False, False, False)

    def __init__(self, clock):
        self.clock = clock

    def now_s(self):
        return self.clock.now_s()

    def fms_attached(self):
        return False


def build_class(shape, asm, variant, H):
    """Generate the StateMachine subclass for a shape from source text (so that the parameter
    order of every state function can vary with ``variant``)."""
    import magicbot.state_machine as smm

    base = smm.AutonomousStateMachine if asm else smm.StateMachine
    ns = dict(state=smm.state, timed_state=smm.timed_state, default_state=smm.default_state, Base=base, H=H)

    def fsrc(name, kind, opts, idx, indent="    "):
        perm = PERMS[(variant + idx) % len(PERMS)]
        if kind == "state":
            kw = ", ".join(f"{k}={v!r}" for k, v in opts.items())
            deco = f"@state({kw})" if kw else "@state"
        elif kind == "timed":
            kw = ", ".join(f"{k}={v!r}" for k, v in opts.items())
            deco = f"@timed_state({kw})"
        else:
            deco = "@default_state"
        return (f"{indent}{deco}\n{indent}def {name}(self, {', '.join(perm)}):\n"
                f"{indent}    self._H.call(self, {name!r}, tm, state_tm, initial_call)\n")

    common = ("    def done(self):\n        self._H.on_done(self)\n        super().done()\n")
    if shape == "S5":
        src = "class B0(Base):\n"
        src += fsrc("a", "state", dict(first=True), 0)
        src += fsrc("b", "timed", dict(duration=1.0, next_state="c"), 1)
        src += fsrc("c", "state", dict(), 2)
        src += "class Mix(Base):\n"
        src += fsrc("e", "timed", dict(duration=0.5, next_state="a"), 3)
        src += "class M(B0, Mix):\n"
        src += fsrc("b", "state", dict(must_finish=True), 4)
        src += common
        spec = S5_META
    elif shape == "S12":
        src = "class B0(Base):\n"
        src += fsrc("a", "state", dict(first=True), 0)
        src += fsrc("w", "state", dict(must_finish=True), 1)
        src += "class Left(B0):\n"
        src += fsrc("w", "state", dict(), 2)
        src += "class Right(B0):\n"
        src += fsrc("r", "timed", dict(duration=0.5, must_finish=True, next_state="w"), 3)
        src += "class M(Left, Right):\n"
        src += common
        spec = S12_META
    elif shape == "S9":
        src = "class B0(Base):\n"
        src += fsrc("a", "timed", dict(first=True, duration=0.25, next_state="b"), 0)
        src += fsrc("b", "timed", dict(duration=0.5, next_state="a"), 1)
        src += "class M(B0):\n"
        src += fsrc("b", "timed", dict(duration=2.0, next_state="a"), 2)
        src += common
        spec = S9_META
    else:
        spec = SHAPES[shape]
        src = "class M(Base):\n"
        for i, (name, kind, opts) in enumerate(spec):
            src += fsrc(name, kind, opts, i)
        src += common
    exec(compile(src, f"<shape {shape}>", "exec"), ns)
    M = ns["M"]
    M._H = H
    meta = {}
    for name, kind, opts in spec:
        meta[name] = dict(
            kind="default" if kind == "default" else ("must_finish" if opts.get("must_finish") else "regular"),
            timed=(kind == "timed"), duration=opts.get("duration"), next_state=opts.get("next_state"),
            first=bool(opts.get("first")),
        )
    return M, meta


def first_state(meta):
    return [n for n, m in meta.items() if m["first"]][0]


def ext_menu(meta, cfg):
    """External calls available before an iteration."""
    tg = cfg["ext_targets"]
    if cfg.get("ext_menu") == "engage-only":
        return [("engage", None, False), ("none", None, False)]
    menu = [("none", None, False), ("engage", None, False)]
    menu += [("engage", t, False) for t in tg]
    if cfg.get("engage_by_reference") and tg:
        # initial_state given as the state object (StateRef = Union[str, _State]) instead of its name
        menu.append(("engage", ("ref", tg[0]), False))
    menu.append(("engage", None, True))
    menu += [("engage", t, True) for t in tg[:1]]
    menu += [("done", None, False), ("on_disable", None, False)]
    return menu


def install_env(c, clock):
    env = SMEnv(clock)
    if world.is_sym():
        import ntcore
        import wpilib

        ntcore.reset()
        wpilib.ENV = env
    else:
        import magicbot.state_machine as smm

        smm.getTime = env.now_s
    return env


_NTID = [0]


def make_machine(c, job, H):
    """Create the machine through the public API; durations become symbolic tunable values."""
    import magicbot.magic_tunable as mt

    M, meta = build_class(job["shape"], job.get("asm", False), job.get("variant", 0), H)
    H.meta = meta
    if job["shape"] in ("S5", "S9", "S12") and c.choose("base_instance_first", 2):
        # machines of the base classes exist before the subclass is instantiated (nothing is shared between classes)
        for B in reversed(M.__mro__[1:]):
            if B.__module__ != "magicbot.state_machine" and B is not object:
                try:
                    B()
                except Exception:
                    pass  # a base without a first state cannot be built on its own
        c.reach("base-class-instance-first")
    sm = M()
    import logging

    sm.logger = logging.getLogger("sm")  # magicbot injects a logger into every component / mode
    _NTID[0] += 1
    cname = f"sm{_NTID[0]}" if not world.is_sym() else "sm"
    pre = {}
    if job.get("pre_durations"):
        # the duration topics already hold values (a dashboard wrote them, or an earlier robot object in the same
        # program) when the machine's tunables are connected: those values count, not the decorators' defaults
        import ntcore

        H.keep = []
        for name, m in meta.items():
            if m["timed"]:
                d = c.real(f"dur_{name}", 0, 100)
                key = f"/components/{cname}/state/{name}_duration"
                if world.is_sym():
                    ntcore.STORE.values[key] = d
                else:
                    e = ntcore.NetworkTableInstance.getDefault().getEntry(key)
                    e.setDouble(float(d))
                    H.keep.append(e)
                pre[name] = d
        c.reach("duration-topics-written-before-setup")
    mt.setup_tunables(sm, cname)
    H.sm = sm
    H.cname = cname
    H.durations = {}
    for name, m in meta.items():
        if m["timed"]:
            if name in pre:
                d = pre[name]
            elif job.get("sym_durations", True):
                d = c.real(f"dur_{name}", 0, 100)
                setattr(sm, f"{name}_duration", d)
            else:
                d = m["duration"]
            H.durations[name] = d
    return sm, meta


def nt_current_state(H):
    if world.is_sym():
        import ntcore

        return ntcore.STORE.values.get(f"/components/{H.cname}/state/current_state")
    import ntcore

    return ntcore.NetworkTableInstance.getDefault().getEntry(f"/components/{H.cname}/state/current_state").getString("?")


def run_history(c, job):
    """K iterations of (external calls ; execute()) on a fresh machine. Returns the Recorder."""
    cfg = job["cfg"]
    clock = Clock(c)
    install_env(c, clock)
    H = Recorder(c, None, cfg)
    H.clock = clock
    sm, meta = make_machine(c, job, H)
    twin = None
    if cfg.get("twin"):
        # a second live instance of the same class, engaged and executed in between (instances must not share state)
        import logging

        import magicbot.magic_tunable as mt

        twin = type(sm)()
        twin.logger = logging.getLogger("twin")
        _NTID[0] += 1
        mt.setup_tunables(twin, f"twin{_NTID[0]}" if not world.is_sym() else "twin")
        for name, d in H.durations.items():
            if job.get("sym_durations", True):
                # the twin's duration topics carry values of their own
                setattr(twin, f"{name}_duration", c.real(f"dur_twin_{name}", 0, 100))
    menu = ext_menu(meta, cfg)
    K = cfg["K"]
    for i in range(K):
        it = Iter(i)
        H.iters.append(it)
        H.ncalls = 0
        it.start_seq = H.nextseq()
        for j in range(cfg.get("ext_per_iter", 1)):
            k = c.choose(f"ext{i}_{j}", len(menu))
            op, tgt, force = menu[k]
            if j > 0 and op == "none":
                continue
            it.ext.append((op, tgt, force))
            if op == "engage":
                kw = {}
                if isinstance(tgt, tuple):
                    kw["initial_state"] = getattr(type(sm), tgt[1])
                    it.ext[-1] = (op, tgt[1], force)
                elif tgt is not None:
                    kw["initial_state"] = tgt
                if force:
                    kw["force"] = True
                sm.engage(**kw)
            elif op == "done":
                sm.done()
            elif op == "on_disable":
                sm.on_disable()
        if cfg.get("rewrite_durations") and i > 0:
            for name in list(H.durations):
                if c.choose(f"rw{i}_{name}", 2):
                    d = c.real(f"dur{i}_{name}", 0, 100)
                    setattr(sm, f"{name}_duration", d)
                    H.durations[name] = d
        if twin is not None:
            c.reach("twin-ran")
            if c.choose(f"twin_eng{i}", 2):
                twin.engage()
            twin.execute()
        it.exec_seq = H.nextseq()
        nreads = len(clock.reads)
        try:
            sm.execute()
        except Exception as e:  # recorded; clauses decide what it means
            it.raised = repr(e)[:200]
        it.now = clock.reads[nreads] if len(clock.reads) > nreads else None
        it.after = (sm.is_executing, sm.current_state, nt_current_state(H))
    c.summary = lambda: dict(job=job.get("shape"), trace=[[x.desc() for x in it.calls] for it in H.iters],
                             ext=[it.ext for it in H.iters],
                             after=[[sx.concretize_desc(v) for v in it.after] for it in H.iters if it.after])
    return H


def run_step(c, job):
    """Layer B: one (external call ; execute()) from an arbitrary internal state satisfying the representation
    invariant.  Returns (H, pre) or None when the private attributes this needs do not exist on the tree under
    test (then the claim simply stays bounded by K: no alarm)."""
    cfg = job["cfg"]
    clock = Clock(c)
    install_env(c, clock)
    H = Recorder(c, None, cfg)
    H.clock = clock
    sm, meta = make_machine(c, job, H)
    P = "_StateMachine__"
    need = [P + "states", P + "should_engage", P + "engaged", P + "state", P + "start", P + "default_state"]
    if not all(hasattr(sm, a) for a in need):
        return None
    states = getattr(sm, P + "states")
    if not all(hasattr(sd, a) for sd in states.values() for a in ("ran", "expires", "must_finish", "name")):
        return None
    now0 = clock.t
    # --- symbolic pre-state under the invariant ----------------------------------------
    setattr(sm, P + "should_engage", False)  # Inv: the request flag is cleared at every iteration boundary
    start = c.real("pre_start", 0, 1000)
    c.assume(start <= now0)
    setattr(sm, P + "start", start)
    names = list(states)
    k = c.choose("pre_state", len(names) + 1)
    cur = None if k == len(names) else states[names[k]]
    setattr(sm, P + "state", cur)
    # Inv: the machine is engaged exactly while it is inside a non-default state (done() clears both, the
    # fallback to the default state goes through done(), the first engaged iteration sets the flag)
    engaged = cur is not None and meta[cur.name]["kind"] != "default"
    setattr(sm, P + "engaged", engaged)
    sm.current_state = cur.name if (cur is not None and meta[cur.name]["kind"] != "default") else ""
    for n, sd in states.items():
        sd.ran = bool(c.boolean(f"pre_ran_{n}"))
        st = c.real(f"pre_st_{n}", 0, 1000)
        sd.start_time = st
        if meta[n]["timed"]:
            ex = c.real(f"pre_ex_{n}", 0, 2000)
            c.assume(ex >= st)
            sd.expires = ex
        else:
            sd.expires = st + 0xFFFFFFFF  # Inv: an untimed state never expires within the horizon
    pre = dict(engaged=engaged, state=cur.name if cur else None)
    # --- one iteration ---------------------------------------------------------------------
    menu = ext_menu(meta, cfg)
    it = Iter(0)
    H.iters.append(it)
    it.start_seq = H.nextseq()
    kk = c.choose("ext", len(menu))
    op, tgt, force = menu[kk]
    it.ext.append((op, tgt, force))
    if op == "engage":
        kw = {}
        if tgt is not None:
            kw["initial_state"] = tgt
        if force:
            kw["force"] = True
        sm.engage(**kw)
    elif op == "done":
        sm.done()
    elif op == "on_disable":
        sm.on_disable()
    it.exec_seq = H.nextseq()
    try:
        sm.execute()
    except Exception as e:
        it.raised = repr(e)[:200]
    it.after = (sm.is_executing, sm.current_state, nt_current_state(H))
    post = dict(should_engage=getattr(sm, P + "should_engage"),
                untimed_ok=[(n, sd.ran, sd.expires, sd.start_time) for n, sd in states.items() if not meta[n]["timed"]])
    c.summary = lambda: dict(step=True, pre=pre, ext=it.ext, calls=[x.desc() for x in it.calls])
    return H, pre, post


def run_asm_history(c, job):
    """AutonomousStateMachine: a symbolic sequence of on_enable / on_iteration / on_disable calls
    (on_enable first; on_enable is not issued while the machine is still running)."""
    cfg = job["cfg"]
    clock = Clock(c)
    install_env(c, clock)
    H = Recorder(c, None, cfg)
    H.clock = clock
    sm, meta = make_machine(c, job, H)
    K = cfg["K"]
    enabled = False  # on_enable called and no on_disable since
    fresh = False
    for i in range(K):
        it = Iter(i)
        H.iters.append(it)
        H.ncalls = 0
        it.start_seq = H.nextseq()
        if i == 0:
            op = "on_enable"
        else:
            running = enabled and H.iters[-2].asm_running
            can_enable = (not running) if not cfg.get("enable_only_after_disable") else (not enabled)
            menu = ["on_iteration", "on_disable"] + (["on_enable"] if can_enable else [])
            op = menu[c.choose(f"op{i}", len(menu))]
        if cfg.get("rewrite_durations") and i > 0 and (cfg["rewrite_durations"] != "enable" or op == "on_enable"):
            for name in list(H.durations):
                if c.choose(f"rw{i}_{name}", 2):
                    d = c.real(f"dur{i}_{name}", 0, 100)
                    setattr(sm, f"{name}_duration", d)
                    H.durations[name] = d
        it.asm_op = op
        it.asm_fresh = False
        it.asm_active = False
        it.exec_seq = H.nextseq()
        nreads = len(clock.reads)
        try:
            if op == "on_enable":
                sm.on_enable()
                enabled, fresh = True, True
            elif op == "on_disable":
                sm.on_disable()
                enabled = False
            else:
                it.asm_fresh = fresh
                it.asm_active = enabled
                fresh = False
                sm.on_iteration(c.real(f"itm{i}", 0, 1000))
        except Exception as e:
            it.raised = repr(e)[:200]
        it.now = clock.reads[nreads] if len(clock.reads) > nreads else None
        it.after = (sm.is_executing, sm.current_state, nt_current_state(H))
        it.asm_enabled = enabled
        if op == "on_iteration":
            it.asm_running = enabled and running_after(it)
        elif op == "on_enable":
            it.asm_running = False  # nothing has run yet; becomes running at the first on_iteration
            it.asm_pending = True
        else:
            it.asm_running = False
        # "running" for the purpose of allowing on_enable: an enabled machine that has not finished
        if op == "on_enable":
            it.asm_running = True
    c.summary = lambda: dict(job=job.get("shape"), ops=[it.asm_op for it in H.iters],
                             trace=[[x.desc() for x in it.calls] for it in H.iters],
                             after=[[sx.concretize_desc(v) for v in it.after] for it in H.iters if it.after])
    return H


# ----------------------------------------------------------------------------------
# trace analysis helpers
# ----------------------------------------------------------------------------------


def engaged_in(it):
    return any(op == "engage" for op, _, _ in it.ext)


def stop_after_engage(it):
    """True if a done()/on_disable() external follows the last engage of this iteration."""
    last = -1
    for j, (op, _, _) in enumerate(it.ext):
        if op == "engage":
            last = j
    return any(op in ("done", "on_disable") for op, _, _ in it.ext[last + 1:]) if last >= 0 else False


def any_ext_stop(it):
    return any(op in ("done", "on_disable") for op, _, _ in it.ext)


def last_call(it):
    return it.calls[-1] if it.calls else None


def running_after(it):
    """RUN_i: the iteration ended with a non-default state as the last one invoked and no done()
    requested by the state functions of that iteration after it."""
    L = last_call(it)
    if L is None or L.kind == "default":
        return False
    # a done() invoked after the last call's own start => not running
    if any(s > L.seq for s in it.done_seqs):
        return False
    return True


def expected_current(it):
    """Name of the state the machine is in after the iteration (RUN_i assumed)."""
    L = last_call(it)
    # the most recent transition request wins: scan calls in order of completion
    cur = L.name
    # next_state requested by L itself
    if L.action == "next_state":
        cur = L.target
    # an outer state that requested next_state *after* its nested calls returned cannot happen
    # (one action per invocation), but an outer next_state issued before... also cannot.
    return cur


def engage_start_target(it, meta, was_running, cur_name):
    """State in which the iteration's engage() externals start the machine, following the documented
    rule: engage() starts at first/initial_state when not executing (or force=True)."""
    first = first_state(meta)
    running = was_running
    cur = cur_name
    for op, tgt, force in it.ext:
        if op in ("done", "on_disable"):
            running = False
            cur = None
        elif op == "engage":
            if force or not running:
                cur = tgt or first
                running = True
    return cur
