"""Specs for the StateMachine properties C01-C04 (shared history harness)."""
from engine.runner import Spec
from harness import sm_clauses as cl
from harness import sm_common as smc

TARGETS = {
    "S1": (["b", "c"], ["b"]),
    "S2": (["a", "b"], ["b"]),
    "S3": (["b", "m", "q"], ["b", "m"]),
    "S4": (["b", "c"], ["b"]),
    "S5": (["b", "e"], ["e"]),
    "S6": (["a"], []),
    "S7": (["b", "c"], ["c"]),
    "S8": (["b"], ["b"]),
    "S9": (["a", "b"], ["b"]),
    "S10": (["a", "b"], ["b"]),
    "S11": (["a", "b"], ["b"]),
    "S12": (["w", "r"], ["w", "r"]),
}

SM_STUBS = [
    "clock: wpilib.Timer.getFPGATimestamp (SYM) / magicbot.state_machine.getTime (REAL) = previous + fresh delta in [0,1000] s, t0 in [0,1000]",
    "ntcore stub (SYM world): one value per topic, set overwrites, setDefault only if absent",
]
SM_ASSUME = [
    "float arithmetic modelled as exact real arithmetic (rounding outside the claim)",
    "machine shapes are the enumerated programs listed in bounds.shapes",
    "state functions take at most one action per invocation (plus the composite double next_state_now in thorough)",
]


def mkjob(shape, K, budget, ext_per_iter=1, nsn_depth=1, variant=0, double_nsn=False, rewrite=False, ext=True, sym_durations=True, by_ref=False,
          default_acts=False, pre_durations=False):
    tg, et = TARGETS[shape]
    return dict(shape=shape, variant=variant, sym_durations=sym_durations, pre_durations=pre_durations,
                cfg=dict(K=K, act_budget=budget, nsn_depth=nsn_depth, targets=tg, ext_targets=et, engage_by_reference=by_ref, default_acts=default_acts,
                         ext_menu="full" if ext else "engage-only",
                         ext_per_iter=ext_per_iter, double_nsn=double_nsn, rewrite_durations=rewrite))


class SMSpec(Spec):
    real_capable = True
    stubs = SM_STUBS
    assumptions = SM_ASSUME
    design_ref = "DESIGN.md §7"
    chunk = 120

    def clause_fn(self, c, H):
        raise NotImplementedError

    def path_fn(self, c, job):
        if job.get("step"):
            r = smc.run_step(c, job)
            if r is None:
                c.reach("inductive-step-skipped")
                return
            cl.clauses_step(c, r[0], r[1], r[2], self.id)
            return
        H = smc.run_history(c, job)
        self.clause_fn(c, H)

    def twinjob(self, shape, K, budget, variant=0):
        j = mkjob(shape, K, budget, variant=variant)
        j["cfg"]["twin"] = True
        j["cfg"]["ext_menu"] = "engage-only"
        return j

    def stepjob(self, shape, budget=1, variant=0):
        j = mkjob(shape, 1, budget, variant=variant)
        j["step"] = True
        return j

    def bounds(self, tier):
        js = self.jobs(tier)
        return dict(shapes={j["shape"]: smc.shape_spec(j["shape"]) for j in js},
                    per_job=[dict(shape=j["shape"], **j["cfg"]) for j in js],
                    clock="every read advances by a fresh real delta in [0,1000]; horizon < 1e6 s",
                    durations="symbolic reals in [0,100] written through the <state>_duration tunable")

    def trigger(self, viol, job):
        return dict(shape=job.get("shape"))


class C01(SMSpec):
    id = "C01"
    clauses = ["C01.1", "C01.2", "C01.3"]
    outside = [
        "sequences of several transition requests inside one state invocation other than next_state_now;next_state_now (thorough)",
        "engage(initial_state=<the default state>)",
        "state functions that raise",
        "histories longer than K iterations; more than `act_budget` non-trivial in-state actions per history",
    ]

    def jobs(self, tier):
        if tier == "quick":
            return ([mkjob(s, 3, 2) for s in ("S1", "S3", "S4", "S5")] + [mkjob("S4", 2, 1, ext_per_iter=2, variant=3), mkjob("S3", 2, 1, ext_per_iter=2, variant=3)]
                    + [mkjob("S1", 2, 2, double_nsn=True, variant=4), mkjob("S3", 2, 1, double_nsn=True, variant=5)]
                    # a state run through next_state_now() that calls next_state_now() itself
                    + [mkjob("S1", 2, 2, nsn_depth=2, variant=2), mkjob("S3", 1, 2, nsn_depth=2, variant=1)]
                    + [self.stepjob(s) for s in ("S3", "S4")]
                    + [mkjob("S11", 5, 0, ext=False, variant=2), mkjob("S8", 4, 0, ext=False, variant=1)]
                    + [mkjob("S4", 3, 1, variant=5, default_acts=True), mkjob("S8", 3, 1, ext=False, variant=2, default_acts=True)]
                    + [mkjob("S12", 3, 1, variant=1)])
        return ([mkjob(s, 4, 2, variant=1) for s in ("S1", "S3", "S4", "S5")]
                + [mkjob(s, 2, 3, ext_per_iter=2, nsn_depth=2, variant=2, double_nsn=True) for s in ("S1", "S4")]
                + [mkjob(s, 2, 2, ext_per_iter=2, nsn_depth=2, variant=2, double_nsn=True) for s in ("S3", "S5")]
                + [mkjob("S12", 4, 2, variant=1), mkjob("S11", 6, 1, ext=False, variant=2), mkjob("S8", 5, 1, ext=False, variant=1),
                   mkjob("S4", 3, 2, variant=5, default_acts=True)]
                + [self.stepjob(s, 2, 1) for s in ("S1", "S3", "S4", "S5", "S8")])

    def reach_required(self, tier):
        return ["regular-invoked", "suppressed-no-engage", "stopped-iteration-with-default", "engaged-iteration", "double-nsn",
                "default-state-requests-transition"]

    def clause_fn(self, c, H):
        cl.clauses_c01(c, H)

    def twin(self, tier):
        spec = self

        def tfn(c, job):
            H = smc.run_history(c, job)
            # falsified clause: "every engaged iteration runs exactly two state functions"
            for it in H.iters:
                if smc.engaged_in(it):
                    c.prove("twin", len(it.calls) == 2)

        return [mkjob("S1", 2, 1)], tfn


class C04(SMSpec):
    id = "C04"
    clauses = ["C04.1 stopped-flags", "C04.1 done-invoked-on-stop", "C04.1 done-invoked-on-expiry", "C04.2", "C04.3"]
    outside = C01.outside

    def jobs(self, tier):
        if tier == "quick":
            return ([mkjob(s, 3, 2) for s in ("S1", "S2", "S3", "S4")] + [mkjob("S8", 3, 1)]
                    + [mkjob("S4", 2, 1, ext_per_iter=2, variant=2), mkjob("S8", 2, 0, ext_per_iter=2, variant=2), mkjob("S1", 2, 1, ext_per_iter=2, variant=2)]
                    + [mkjob("S3", 3, 0, variant=5, by_ref=True), mkjob("S4", 3, 1, variant=4, by_ref=True)]
                    + [self.twinjob("S1", 3, 0), self.twinjob("S4", 3, 0)]
                    # stop by expiry with the decorator's own durations (incl. duration 0) and the restart instant
                    + [mkjob("S10", 4, 1, sym_durations=False, variant=1), mkjob("S2", 5, 0, ext=False, variant=1), mkjob("S7", 5, 0, ext=False, variant=2),
                       mkjob("S8", 4, 0, ext=False, sym_durations=False), mkjob("S10", 5, 0, ext=False, sym_durations=False, variant=3)]
                    + [mkjob("S1", 1, 0, ext_per_iter=3, variant=1), mkjob("S4", 1, 0, ext_per_iter=3, variant=1), mkjob("S3", 1, 0, ext_per_iter=3, variant=2)])
        return ([mkjob(s, 4, 2, variant=3) for s in ("S1", "S2", "S3", "S4", "S8")]
                + [mkjob(s, 2, 3, ext_per_iter=2, nsn_depth=2, variant=4) for s in ("S1", "S2", "S4", "S8")]
                + [mkjob("S1", 1, 1, ext_per_iter=3, variant=1), mkjob("S4", 2, 0, ext_per_iter=3, variant=1), mkjob("S3", 3, 1, variant=5, by_ref=True),
                   self.twinjob("S1", 4, 1), self.twinjob("S4", 4, 0), self.twinjob("S2", 5, 0),
                   mkjob("S10", 5, 1, sym_durations=False, variant=1), mkjob("S2", 7, 0, ext=False, variant=1), mkjob("S7", 6, 0, ext=False, variant=2)])

    def reach_required(self, tier):
        return ["not-running-after-iteration", "default-fallback", "stop-event", "running-after-iteration",
                "last-timed-state-left", "re-engage", "first-engage"]

    def clause_fn(self, c, H):
        cl.clauses_c04(c, H)
        cl.clauses_forced_engage(c, H, "C04")
        if H.cfg.get("ext_menu") == "engage-only" and not H.cfg.get("twin"):
            # continuously engaged machines: the instant at which the machine starts over after its last timed state
            cl.timing_clauses(c, H, "C04.t")

    def twin(self, tier):
        def tfn(c, job):
            H = smc.run_history(c, job)
            for it in H.iters:
                c.prove("twin", it.after[0] is False)

        return [mkjob("S1", 2, 1)], tfn


class C02(SMSpec):
    id = "C02"
    clauses = ["C02.1", "C02.2", "C02.4", "C02.5", "C02.start", "C02.tm-origin"]
    outside = [
        "IEEE rounding of the clock arithmetic (reals are used)",
        "histories longer than K iterations",
        "non-plain engagement (engage(force=True)/engage(initial_state) mid-run) - covered by C01/C04 only",
    ]

    def jobs(self, tier):
        # externals restricted to none / engage(): the engagement history is symbolic, transitions come from expiry
        if tier == "quick":
            return ([mkjob(s, 6, 0, ext=False) for s in ("S2", "S6", "S7")] + [mkjob("S1", 5, 1, ext=False)]
                    + [mkjob("S6", 5, 0, ext=False, rewrite=True, variant=1), mkjob("S2", 4, 0, ext=False, rewrite=True, variant=1)]
                    # decorator-default durations (nothing written to the duration topics), incl. a redefined timed state
                    + [mkjob("S9", 6, 0, ext=False, sym_durations=False), mkjob("S7", 5, 0, ext=False, sym_durations=False, variant=2),
                       mkjob("S10", 5, 0, ext=False, sym_durations=False, variant=3), mkjob("S11", 6, 0, ext=False, variant=4)]
                    # a second live machine of the same class, engaged at other times: clocks are per machine
                    + [self.twinjob("S2", 4, 0), self.twinjob("S6", 3, 0)]
                    # values already on the duration topics when the tunables are connected; a timed state re-entered by
                    # next_state() after its earlier visit has long expired
                    + [mkjob("S2", 4, 0, ext=False, pre_durations=True, variant=1), mkjob("S7", 4, 0, ext=False, pre_durations=True),
                       mkjob("S1", 5, 2, ext=False, variant=2)])
        return ([mkjob(s, 8, 1, ext=False, variant=1) for s in ("S2", "S6", "S7")]
                + [mkjob("S6", 7, 0, ext=False, variant=2, rewrite=True), mkjob("S2", 5, 0, ext=False, variant=2, rewrite=True),
                   mkjob("S7", 4, 0, ext=False, variant=2, rewrite=True), mkjob("S1", 7, 1, ext=False, variant=1), mkjob("S3", 6, 1, ext=False, variant=5),
                   mkjob("S9", 8, 0, ext=False, sym_durations=False), mkjob("S10", 7, 0, ext=False, sym_durations=False, variant=3),
                   mkjob("S11", 7, 1, ext=False, variant=4), mkjob("S8", 6, 1, ext=False, variant=1),
                   self.twinjob("S2", 5, 0), self.twinjob("S6", 4, 0), self.twinjob("S7", 4, 1),
                   mkjob("S2", 6, 0, ext=False, pre_durations=True, variant=1), mkjob("S7", 6, 1, ext=False, pre_durations=True), mkjob("S1", 6, 2, ext=False, variant=2)])

    def reach_required(self, tier):
        return ["engagement-start", "timed-pair", "timed-stays", "timed-expired", "restart", "self-loop-note"][:5]

    def clause_fn(self, c, H):
        cl.timing_clauses(c, H, "C02")

    def twin(self, tier):
        def tfn(c, job):
            H = smc.run_history(c, job)
            for it in H.iters:
                for x in it.calls:
                    c.prove("twin", x.state_tm == 0)

        return [mkjob("S2", 3, 0, ext=False)], tfn


class C03H(SMSpec):
    """History part of C03 (the signature part lives in harness/c03.py)."""

    def clause_fn(self, c, H):
        cl.timing_clauses(c, H, "C03")
        cl.clauses_c03_default(c, H)


class C13(SMSpec):
    id = "C13"
    clauses = ["C13.enable", "C13.run", "C13.finish nothing-runs", "C13.finish is_executing", "C13.disable",
               "C13.1", "C13.2", "C13.tm-origin", "C13.ic"]
    outside = [
        "on_iteration() before the first on_enable() (raises AttributeError today; not covered by the statement)",
        "on_enable() while the machine is still running (no on_disable() in between)",
        "done() followed by next_state() inside one state invocation and then on_enable() without an on_disable() in between (the framework always disables first)",
        "IEEE rounding of the clock arithmetic (reals are used)",
        "histories longer than K calls",
    ]

    def mk(self, shape, K, budget, variant=0, nsn_depth=1, done_next=False, sym_durations=True, double_nsn=False, rewrite=False):
        j = mkjob(shape, K, budget, variant=variant, nsn_depth=nsn_depth, sym_durations=sym_durations, double_nsn=double_nsn, rewrite=rewrite)
        j["asm"] = True
        j["cfg"]["asm"] = True
        if done_next:
            j["cfg"]["done_then_next"] = True
            j["cfg"]["enable_only_after_disable"] = True
        return j

    def mk_force(self, *a, **k):
        j = self.mk(*a, **k)
        j["cfg"]["force_acts"] = True
        return j

    def jobs(self, tier):
        if tier == "quick":
            return [self.mk("S1", 6, 2), self.mk("S2", 6, 1), self.mk("S3", 5, 2), self.mk("S7", 6, 0), self.mk("S8", 5, 1),
                    self.mk("S1", 6, 1, variant=2, done_next=True), self.mk("S10", 6, 0, variant=1, sym_durations=False),
                    self.mk("S9", 6, 0, variant=2, sym_durations=False),
                    # two next_state_now() calls from one state invocation / a nested chain of them
                    self.mk("S1", 4, 2, variant=3, double_nsn=True), self.mk("S3", 3, 2, variant=1, nsn_depth=2),
                    # the duration topics are rewritten between (and inside) periods: the value at entry counts, every time
                    self.mk("S6", 5, 0, variant=1, rewrite=True), self.mk("S2", 6, 0, variant=2, rewrite="enable"),
                    self.mk_force("S1", 5, 2, variant=1), self.mk_force("S3", 4, 1, variant=2)]
        return [self.mk("S1", 8, 2, 1), self.mk("S2", 8, 2, 2), self.mk("S3", 6, 3, 3, 2), self.mk("S7", 9, 1, 4),
                self.mk("S8", 7, 2, 5), self.mk("S4", 6, 2, 1), self.mk("S6", 8, 1, 2), self.mk("S1", 7, 2, 3, done_next=True),
                self.mk("S3", 6, 2, 4, done_next=True), self.mk("S1", 5, 2, variant=3, double_nsn=True), self.mk("S4", 4, 3, variant=2, nsn_depth=2, double_nsn=True),
                self.mk("S6", 7, 0, variant=1, rewrite=True), self.mk("S2", 7, 0, variant=2, rewrite=True),
                self.mk_force("S1", 6, 2, variant=1), self.mk_force("S3", 5, 2, variant=2)]

    def reach_required(self, tier):
        return ["disabled", "iteration-after-finish", "iteration-while-disabled", "first-iteration-after-enable",
                "asm-running", "asm-finished", "asm-finished-by-done", "asm-finished-by-expiry", "timed-expired"]

    def path_fn(self, c, job):
        H = smc.run_asm_history(c, job)
        cl.timing_clauses(c, H, "C13")
        cl.clauses_c13(c, H)

    def trigger(self, viol, job):
        info = viol.get("info") or {}
        return dict(shape=job.get("shape"), called_kind=info.get("kind"))

    def twin(self, tier):
        def tfn(c, job):
            H = smc.run_asm_history(c, job)
            for it in H.iters:
                c.prove("twin", len(it.calls) == 0)

        return [self.mk("S1", 3, 0)], tfn
