"""REAL-world driver for the loop harness: the same generated robots run under the real wpilib / hal / ntcore
simulation (robot thread + DriverStationSim + stepped FPGA time) for driver-station scripts whose control
word changes at time-step boundaries.  Used to validate the loop stubs (DESIGN.md §3b, §4).

usage: python real/loop_real.py real <json file with a list of items>  -> prints "LOOPREAL <json>"
item: dict(job=..., script=[[mode, steps], ...], fms=bool, uti=bool, fault=[site, pattern] | None)
"""
import json
import os
import sys
import threading
import faulthandler
if os.environ.get("VERIF_DEBUG_HANG"): faulthandler.dump_traceback_later(int(os.environ["VERIF_DEBUG_HANG"]))

V = os.path.dirname(os.path.dirname(os.path.abspath(__file__)))
sys.path.insert(0, V)
from engine import world  # noqa: E402


def real_run(item):
    import hal.simulation as hs
    import ntcore
    import wpilib
    import wpilib.simulation as ws

    from harness import loop_common as lcm

    job = item["job"]
    cfg = job["cfg"]
    log = lcm.Log()

    class RealEnv:
        fault = None

        @property
        def t(self):
            return wpilib.RobotController.getFPGATime()

        def spend(self, where):
            pass

        maybe_raise = lcm.LoopEnv.maybe_raise

    env = RealEnv()
    env.log = log
    if item.get("fault"):
        env.fault = [dict(site=item["fault"][0], pattern=item["fault"][1], n=0)]
    H = lcm.Harness(None, job, env, log)
    H.period = cfg.get("period", 0.02)
    lcm.set_auto_pkg(cfg.get("auto_pkg", True))
    hs.pauseTiming()
    hs.restartTiming()
    ws.DriverStationSim.resetData()
    ws.DriverStationSim.setFmsAttached(bool(item.get("fms")))
    ws.DriverStationSim.setDsAttached(True)
    ws.DriverStationSim.notifyNewData()
    Robot, comps, hooks = lcm.build_robot(job["layout"], H, {})
    H.comps, H.hook_names = comps, hooks
    r = Robot()
    H.robot = r
    r.use_teleop_in_autonomous = bool(item.get("uti"))
    out = {}

    def run():
        try:
            r.startCompetition()
            out["outcome"] = "normal"
        except lcm.Boom:
            out["outcome"] = "boom"
        except BaseException as e:  # noqa
            out["outcome"] = "error:" + repr(e)[:200]

    # lock-step with the robot thread: a time step is only taken once the loop is about to block in wait()
    import hal

    at_wait = threading.Event()
    orig_wait = hal.waitForNotifierAlarm

    def waiting(handle):
        at_wait.set()
        return orig_wait(handle)

    hal.waitForNotifierAlarm = waiting
    th = threading.Thread(target=run, daemon=True)
    th.start()
    hs.waitForProgramStart()
    step = H.period
    hung = False
    try:
        for mode, n in item["script"]:
            e, a, t = lcm.WORDS[mode]
            for _ in range(n):
                if not at_wait.wait(10):
                    hung = not th.is_alive() or True
                    break
                at_wait.clear()
                ws.DriverStationSim.setEnabled(e)
                ws.DriverStationSim.setAutonomous(a)
                ws.DriverStationSim.setTest(t)
                ws.DriverStationSim.notifyNewData()
                hs.stepTimingAsync(int(step * 1e6))
            if hung:
                break
        n_before_end = len(log.ev)
        if th.is_alive() and not hung:
            at_wait.wait(10)
            n_before_end = len(log.ev)
            r.endCompetition()
            hs.stepTimingAsync(int(step * 1e6))
        th.join(10)
    finally:
        hal.waitForNotifierAlarm = orig_wait
    if th.is_alive():
        out["outcome"] = "hung"
    evs = []
    for i, e in enumerate(log.ev):
        if e[0] == "cb":
            evs.append(["cb", e[1], int(e[3]) if i < n_before_end else None, e[4]])
        elif e[0] == "raise":
            evs.append(["raise", e[1]])
    return dict(outcome=out.get("outcome"), events=evs)


if __name__ == "__main__":
    world.enter("real")
    items = json.load(open(sys.argv[2]))
    res = []
    for it in items:
        try:
            res.append(real_run(it))
        except Exception as e:  # noqa
            import traceback

            res.append(dict(outcome="driver-error", events=[], error=traceback.format_exc()[-1500:]))
    print("LOOPREAL " + json.dumps(res))
    sys.stdout.flush()
    os._exit(0)
