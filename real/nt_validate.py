"""Differential validation of the ntcore stub contract: the same operation script is run against the real
ntcore (REAL world) and against /verif/stubs/ntcore (SYM world); the observations must be identical.
usage: python real/nt_validate.py real|sym   -> prints a JSON list of observations
"""
import json
import os
import sys

V = os.path.dirname(os.path.dirname(os.path.abspath(__file__)))
sys.path.insert(0, V)
from engine import world  # noqa: E402

world.enter(sys.argv[1])
import ntcore  # noqa: E402

inst = ntcore.NetworkTableInstance.getDefault()
obs = []
P = f"/ntv{os.getpid() % 1000}" if sys.argv[1] == "real" else "/ntv"


def o(tag, v):
    if isinstance(v, (list, tuple)):
        v = list(v)
    obs.append([tag, v])


# typed entry: get default, set, setDefault, second handle sees it
t = ntcore.DoubleTopic(inst.getTopic(P + "/a"))
e = t.getEntry(1.5)
o("default-read", e.get())
e.setDefault(2.5)
o("setDefault-on-absent", e.get())
e.setDefault(3.5)
o("setDefault-on-present-preserves", e.get())
e.set(4.5)
o("set-overwrites", e.get())
e2 = ntcore.DoubleTopic(inst.getTopic(P + "/a")).getEntry(9.0)
o("second-handle-sees-value", e2.get())
e2.set(5.5)
o("write-through-second-handle-visible", e.get())
# independent keys
f = ntcore.DoubleTopic(inst.getTopic(P + "/b")).getEntry(7.0)
o("other-key-independent", f.get())
# generic entry through a table, sub-table path
tab = inst.getTable(P)
tab.getEntry("g").setValue(11)
o("generic-entry-int", tab.getEntry("g").getValue().value() if sys.argv[1] == "real" else tab.getEntry("g").getValue())
sub = tab.getSubTable("s")
sub.putNumber("n", 3.25)
o("subtable-key", inst.getEntry(P + "/s/n").getDouble(0.0) if sys.argv[1] == "real" else inst.getEntry(P + "/s/n").get())
o("table-getNumber", sub.getNumber("n", 0.0))
o("table-getNumber-default", sub.getNumber("missing", -1.0))
# copy on publish: mutate the list after publishing
arr = [1.0, 2.0]
pub = ntcore.DoubleArrayTopic(inst.getTopic(P + "/arr")).publish()
pub.set(arr)
arr[0] = 99.0
rd = ntcore.DoubleArrayTopic(inst.getTopic(P + "/arr")).getEntry([])
o("array-copied-on-publish", rd.get())
# topic properties
tp = inst.getTopic(P + "/a")
o("persistent-default-false", bool(tp.isPersistent()))
tp.setPersistent(True)
o("persistent-after-set", bool(inst.getTopic(P + "/a").isPersistent()))
# string / bool / int topics
s = ntcore.StringTopic(inst.getTopic(P + "/str")).getEntry("d")
s.set("x")
o("string", s.get())
b = ntcore.BooleanTopic(inst.getTopic(P + "/bool")).getEntry(False)
b.set(True)
o("bool", b.get())
i = ntcore.IntegerTopic(inst.getTopic(P + "/int")).getEntry(0)
i.set(7)
o("int", i.get())
sa = ntcore.StringArrayTopic(inst.getTopic(P + "/sa")).getEntry([])
sa.set(["a", "b"])
o("string-array", sa.get())
# argument rules of the compiled getters (TypeError or accepted)
def accepts(mk):
    try:
        mk()
        return "accepted"
    except TypeError:
        return "TypeError"


for i, (T, v) in enumerate(((ntcore.DoubleTopic, "s"), (ntcore.BooleanTopic, 1), (ntcore.IntegerTopic, 1.5), (ntcore.StringTopic, 3), (ntcore.DoubleTopic, 3),
                            (ntcore.IntegerTopic, True), (ntcore.DoubleArrayTopic, [1, 2]), (ntcore.DoubleArrayTopic, (1.0,)), (ntcore.BooleanArrayTopic, [1, 0]),
                            (ntcore.StringArrayTopic, [1]), (ntcore.IntegerArrayTopic, [1.5]))):
    o(f"getEntry-{T.__name__}-{v!r}", accepts(lambda: T(inst.getTopic(f"{P}/sig{i}")).getEntry(v)))
o("raw-getEntry-without-typestring", accepts(lambda: ntcore.RawTopic(inst.getTopic(P + "/raw0")).getEntry(b"ab")))
o("raw-getEntry-with-typestring", accepts(lambda: ntcore.RawTopic(inst.getTopic(P + "/raw1")).getEntry("raw", b"ab")))
o("raw-publish-without-typestring", accepts(lambda: ntcore.RawTopic(inst.getTopic(P + "/raw2")).publish()))
re = ntcore.RawTopic(inst.getTopic(P + "/raw3")).getEntry("raw", b"ab")
re.set(b"cd")
o("raw-roundtrip", re.get().decode() if isinstance(re.get(), (bytes, bytearray)) else str(re.get()))
print("NTVALIDATE " + json.dumps(obs))
sys.stdout.flush()
os._exit(0)
