"""Helpers to run the differential (REAL vs SYM world) validation scripts from a check's extra()."""
import json
import os
import subprocess
import sys

V = os.path.dirname(os.path.dirname(os.path.abspath(__file__)))


def run_script(script, world, args=(), tag="", timeout=300):
    env = dict(os.environ, PYTHONDONTWRITEBYTECODE="1")
    r = subprocess.run([sys.executable, os.path.join(V, "real", script), world, *args], cwd=V, env=env, capture_output=True, text=True, timeout=timeout)
    for line in r.stdout.splitlines():
        if line.startswith(tag):
            return json.loads(line[len(tag):])
    raise RuntimeError(f"{script} {world} failed rc={r.returncode}: {r.stdout[-800:]} {r.stderr[-1500:]}")


def nt_contract():
    """dict(validated=n, problems=[...]) for the ntcore stub contract."""
    try:
        real = run_script("nt_validate.py", "real", tag="NTVALIDATE ")
        sym = run_script("nt_validate.py", "sym", tag="NTVALIDATE ")
    except Exception as e:
        return dict(validated=0, problems=[f"ntcore stub validation could not run: {e}"])
    probs = []
    n = 0
    if len(real) != len(sym):
        probs.append("ntcore stub validation: different number of observations")
    for a, b in zip(real, sym):
        if a[0] != b[0] or a[1] != b[1]:
            probs.append(f"ntcore stub contract differs from the real ntcore: real={a} stub={b}")
        else:
            n += 1
    return dict(validated=n, problems=probs, samples=[dict(nt_contract_observations=real[:6])])
