"""hal stub (SYM world): notifier alarm contract + no-op observers."""
import types

import wpilib


class _E:
    def __getattr__(self, n):
        return types.SimpleNamespace(value=0)


tResourceType = _E()
tInstances = _E()


def report(*a):
    pass


def observeUserProgramStarting():
    wpilib.env().observe("starting")


def observeUserProgramDisabled():
    wpilib.env().observe("disabled")


def observeUserProgramTeleop():
    wpilib.env().observe("teleop")


def observeUserProgramAutonomous():
    wpilib.env().observe("auto")


def observeUserProgramTest():
    wpilib.env().observe("test")


def simPeriodicBefore():
    pass


def simPeriodicAfter():
    pass


def initializeNotifier():
    return wpilib.env().notifier_init()


def stopNotifier(h):
    wpilib.env().notifier_stop(h)


def cleanNotifier(h):
    wpilib.env().notifier_clean(h)


def updateNotifierAlarm(h, t):
    wpilib.env().notifier_update(h, t)


def waitForNotifierAlarm(h):
    return wpilib.env().notifier_wait(h)


def __getattr__(name):
    if name.startswith("__"):
        raise AttributeError(name)
    wpilib._poison(f"unmodelled API hal.{name} used")
    raise AttributeError(name)
