"""Pure-Python model of the NT4 surface used by /repo: one local instance, one value, one type and a
property set per topic; set overwrites, setDefault writes only if absent, get returns the value or the
entry's default; sequence values are copied when published (contract validated against the real ntcore
by real/nt_validate.py).  The surface is wider than what /repo uses today so that a tree which starts
using neighbouring APIs (sub-tables, topic properties) is still decided rather than rejected."""
import wpilib as _w


class _Store:
    def __init__(self):
        self.values = {}
        self.types = {}
        self.props = {}
        self.writes = []  # (key, value) in order, for harness inspection
        self.version = {}  # key -> index of the write that produced the current value
        self.stamps = [0]  # stamps[i] = time of the i-th write: non-decreasing, equal stamps are possible


STORE = _Store()


def reset():
    STORE.values.clear()
    STORE.types.clear()
    STORE.props.clear()
    del STORE.writes[:]
    STORE.version.clear()
    del STORE.stamps[1:]


def _copy(v):
    if isinstance(v, (list, tuple)):
        return list(v)
    return v


def _write(key, v):
    v = _copy(v)
    STORE.values[key] = v
    STORE.writes.append((key, v))
    STORE.version[key] = len(STORE.writes)


def _stamp(i):
    """Time stamp of the i-th write: wpi::Now() is only non-decreasing (with paused simulated time several
    writes carry the same stamp), so each step adds a fresh delta >= 0 (created on demand)."""
    from engine import symex

    c = symex.ctx()
    while len(STORE.stamps) <= i:
        d = c.integer(f"nt_dt{len(STORE.stamps)}", 0, 1000) if c is not None else 1
        STORE.stamps.append(STORE.stamps[-1] + d)
    return STORE.stamps[i]


def _norm(k):
    return k if k.startswith("/") else "/" + k


class Topic:
    def __init__(self, key):
        self.key = _norm(key)

    def getName(self):
        return self.key

    def exists(self):
        return self.key in STORE.values

    def getTypeString(self):
        t = STORE.types.get(self.key)
        return t[0] if t else ""

    def isPersistent(self):
        return STORE.props.get(self.key, {}).get("persistent", False)

    def setPersistent(self, b):
        STORE.props.setdefault(self.key, {})["persistent"] = b

    def isRetained(self):
        return STORE.props.get(self.key, {}).get("retained", False)

    def setRetained(self, b):
        STORE.props.setdefault(self.key, {})["retained"] = b

    def getProperty(self, name):
        return STORE.props.get(self.key, {}).get(name)

    def setProperty(self, name, v):
        STORE.props.setdefault(self.key, {})[name] = v

    def getProperties(self):
        return dict(STORE.props.get(self.key, {}))

    def genericPublish(self, typ, *a):
        return _Pub(self.key)

    def getGenericEntry(self, *a):
        return _Entry(self.key, None)


class _Entry:
    def __init__(self, key, default):
        self.key = key
        self.default = default

    def get(self, *a):
        if a and self.key not in STORE.values:
            return a[0]
        return STORE.values.get(self.key, self.default)

    def set(self, v, *a):
        _write(self.key, v)

    def setDefault(self, v):
        if self.key not in STORE.values:
            _write(self.key, v)

    def exists(self):
        return self.key in STORE.values

    def getLastChange(self):
        return _stamp(STORE.version.get(self.key, 0))

    def getAtomic(self, *a):
        import types

        return types.SimpleNamespace(value=self.get(*a), time=self.getLastChange(), serverTime=self.getLastChange())

    def readQueue(self):
        return []

    def getTopic(self):
        return Topic(self.key)

    def getName(self):
        return self.key

    def unpublish(self):
        pass

    def close(self):
        pass

    def setPersistent(self):
        STORE.props.setdefault(self.key, {})["persistent"] = True

    def clearPersistent(self):
        STORE.props.setdefault(self.key, {})["persistent"] = False

    def isPersistent(self):
        return STORE.props.get(self.key, {}).get("persistent", False)

    setValue = setBoolean = setString = setDouble = setInteger = setFloat = setRaw = set
    setBooleanArray = setDoubleArray = setIntegerArray = setStringArray = setFloatArray = set
    setDefaultValue = setDefaultBoolean = setDefaultString = setDefaultDouble = setDefaultInteger = setDefault
    getValue = getBoolean = getString = getDouble = getInteger = getFloat = getRaw = get
    getBooleanArray = getDoubleArray = getIntegerArray = getStringArray = getFloatArray = get


class _Pub:
    def __init__(self, key):
        self.key = key

    def set(self, v, *a):
        _write(self.key, v)

    def setDefault(self, v):
        if self.key not in STORE.values:
            _write(self.key, v)

    def getTopic(self):
        return Topic(self.key)

    def close(self):
        pass


def _is_num(v):
    from engine.symex import SNum

    return isinstance(v, (int, float, SNum)) and not isinstance(v, str)


def _is_int(v):
    from engine.symex import SNum

    return isinstance(v, int) or (isinstance(v, SNum) and v.is_int)


def _is_bool(v):
    from engine.symex import SBool

    return isinstance(v, (bool, int, SBool))


_ELEM = {"Boolean": _is_bool, "Integer": _is_int, "Double": _is_num, "Float": _is_num, "String": lambda v: isinstance(v, str)}


def _accepts(tname, v):
    """Argument type rules of the compiled ntcore getters (probed on the real module: a str default for a
    DoubleTopic, a float for an IntegerTopic, an int for a StringTopic raise TypeError; bool/int interconvert)."""
    base = tname[:-5]  # strip 'Topic'
    if base in ("Struct", "StructArray"):
        return True
    if base == "Raw":
        return isinstance(v, (bytes, bytearray, memoryview))
    if base.endswith("Array"):
        return isinstance(v, (list, tuple)) and all(_ELEM[base[:-5]](x) for x in v)
    return _ELEM[base](v)


def _mk(tname):
    raw = tname == "RawTopic"

    class T:
        TYPE = tname

        def __init__(self, topic, *a):
            self.topic = topic
            self.key = topic.key
            self.extra = a
            STORE.types[self.key] = (tname,) + tuple(getattr(x, "__name__", str(x)) for x in a)

        def _args(self, what, a, want_default):
            # RawTopic getters take (typeString, defaultValue, ...); all others (defaultValue, ...)
            a = list(a)
            if raw:
                if not a or not isinstance(a[0], str):
                    raise TypeError(f"{what}(): incompatible function arguments (RawTopic needs a typeString first)")
                a = a[1:]
            if want_default:
                if not a or not _accepts(tname, a[0]):
                    raise TypeError(f"{what}(): incompatible function arguments for {tname}: {a[:1]!r}")
                return a[0]
            return None

        def getEntry(self, *a):
            return _Entry(self.key, self._args("getEntry", a, True))

        def getEntryEx(self, typestr, default, *a):
            return _Entry(self.key, default)

        def publish(self, *a):
            self._args("publish", a, False)
            return _Pub(self.key)

        def publishEx(self, *a):
            return _Pub(self.key)

        def subscribe(self, *a):
            return _Entry(self.key, self._args("subscribe", a, True))

        def __getattr__(self, n):
            if n.startswith("__"):
                raise AttributeError(n)
            return getattr(self.topic, n)

    T.__name__ = T.__qualname__ = tname
    return T


BooleanTopic = _mk("BooleanTopic")
IntegerTopic = _mk("IntegerTopic")
DoubleTopic = _mk("DoubleTopic")
FloatTopic = _mk("FloatTopic")
StringTopic = _mk("StringTopic")
RawTopic = _mk("RawTopic")
BooleanArrayTopic = _mk("BooleanArrayTopic")
IntegerArrayTopic = _mk("IntegerArrayTopic")
DoubleArrayTopic = _mk("DoubleArrayTopic")
FloatArrayTopic = _mk("FloatArrayTopic")
StringArrayTopic = _mk("StringArrayTopic")
StructTopic = _mk("StructTopic")
StructArrayTopic = _mk("StructArrayTopic")

_TYPED = dict(Boolean=BooleanTopic, Integer=IntegerTopic, Double=DoubleTopic, Float=FloatTopic, String=StringTopic, Raw=RawTopic,
              BooleanArray=BooleanArrayTopic, IntegerArray=IntegerArrayTopic, DoubleArray=DoubleArrayTopic,
              FloatArray=FloatArrayTopic, StringArray=StringArrayTopic)


class _TopicGetters:
    def _key(self, k):
        raise NotImplementedError

    def getTopic(self, k):
        return Topic(self._key(k))

    def getEntry(self, k):
        return _Entry(self._key(k), None)

    def getStructTopic(self, k, t):
        return StructTopic(Topic(self._key(k)), t)

    def getStructArrayTopic(self, k, t):
        return StructArrayTopic(Topic(self._key(k)), t)


for _n, _cls in _TYPED.items():
    def _g(self, k, _cls=_cls):
        return _cls(Topic(self._key(k)))

    setattr(_TopicGetters, f"get{_n}Topic", _g)


class NetworkTable(_TopicGetters):
    PATH_SEPARATOR_CHAR = "/"

    def __init__(self, path):
        self.path = _norm(path).rstrip("/")

    def _key(self, k):
        return f"{self.path}/{k}"

    def getPath(self):
        return self.path

    def getSubTable(self, k):
        return NetworkTable(self._key(k))

    def containsKey(self, k):
        return self._key(k) in STORE.values

    def getKeys(self, *a):
        p = self.path + "/"
        return [k[len(p):] for k in STORE.values if k.startswith(p) and "/" not in k[len(p):]]

    def putBoolean(self, k, v):
        _write(self._key(k), v)
        return True

    putNumber = putString = putStringArray = putNumberArray = putBooleanArray = putRaw = putValue = putBoolean

    def setDefaultBoolean(self, k, v):
        if self._key(k) not in STORE.values:
            _write(self._key(k), v)
        return True

    setDefaultNumber = setDefaultString = setDefaultValue = setDefaultStringArray = setDefaultNumberArray = setDefaultBoolean

    def getBoolean(self, k, d):
        return STORE.values.get(self._key(k), d)

    getNumber = getString = getStringArray = getNumberArray = getBooleanArray = getRaw = getValue = getBoolean

    def setPersistent(self, k):
        STORE.props.setdefault(self._key(k), {})["persistent"] = True

    def clearPersistent(self, k):
        STORE.props.setdefault(self._key(k), {})["persistent"] = False

    def isPersistent(self, k):
        return STORE.props.get(self._key(k), {}).get("persistent", False)


class NetworkTableInstance(_TopicGetters):
    _inst = None

    @classmethod
    def getDefault(cls):
        if cls._inst is None:
            cls._inst = cls()
        return cls._inst

    def _key(self, k):
        return _norm(k)

    def getTable(self, p):
        return NetworkTable(p)

    def flush(self):
        pass

    def flushLocal(self):
        pass


def __getattr__(name):
    if name.startswith("__"):
        raise AttributeError(name)
    _w._poison(f"unmodelled API ntcore.{name} used")
    raise AttributeError(name)
