"""Pure-Python model of the NT4 surface used by /repo: one local instance, one value and one
type per topic; set overwrites, setDefault writes only if absent, get returns the value or the
entry's default (contract validated against the real ntcore by real/nt_validate.py)."""
import wpilib as _w


class _Store:
    def __init__(self):
        self.values = {}
        self.types = {}
        self.writes = []  # (key, value) in order, for harness inspection


STORE = _Store()


def reset():
    STORE.values.clear()
    STORE.types.clear()
    del STORE.writes[:]


def _write(key, v):
    STORE.values[key] = v
    STORE.writes.append((key, v))


class Topic:
    def __init__(self, key):
        self.key = key

    def getName(self):
        return self.key


class _Entry:
    def __init__(self, key, default):
        self.key = key
        self.default = default

    def get(self, *a):
        return STORE.values.get(self.key, self.default)

    def set(self, v):
        _write(self.key, v)

    def setDefault(self, v):
        if self.key not in STORE.values:
            _write(self.key, v)

    setValue = setBoolean = setString = setDouble = setInteger = set
    getValue = get


class _Pub:
    def __init__(self, key):
        self.key = key

    def set(self, v):
        _write(self.key, v)


def _mk(tname):
    class T:
        TYPE = tname

        def __init__(self, topic, *a):
            self.key = topic.key
            self.extra = a
            STORE.types[self.key] = (tname,) + tuple(getattr(x, "__name__", str(x)) for x in a)

        def getEntry(self, default, *a):
            return _Entry(self.key, default)

        def publish(self, *a):
            return _Pub(self.key)

        def subscribe(self, default, *a):
            return _Entry(self.key, default)

    T.__name__ = T.__qualname__ = tname
    return T


BooleanTopic = _mk("BooleanTopic")
IntegerTopic = _mk("IntegerTopic")
DoubleTopic = _mk("DoubleTopic")
StringTopic = _mk("StringTopic")
RawTopic = _mk("RawTopic")
BooleanArrayTopic = _mk("BooleanArrayTopic")
IntegerArrayTopic = _mk("IntegerArrayTopic")
DoubleArrayTopic = _mk("DoubleArrayTopic")
StringArrayTopic = _mk("StringArrayTopic")
StructTopic = _mk("StructTopic")
StructArrayTopic = _mk("StructArrayTopic")


class NetworkTable:
    def __init__(self, path):
        self.path = path.rstrip("/")

    def _k(self, k):
        return f"{self.path}/{k}"

    def getEntry(self, k):
        return _Entry(self._k(k), None)

    def getTopic(self, k):
        return Topic(self._k(k))

    def putBoolean(self, k, v):
        _write(self._k(k), v)

    putNumber = putString = putStringArray = putValue = putBoolean

    def getBoolean(self, k, d):
        return STORE.values.get(self._k(k), d)

    getNumber = getString = getStringArray = getValue = getBoolean


class NetworkTableInstance:
    _inst = None

    @classmethod
    def getDefault(cls):
        if cls._inst is None:
            cls._inst = cls()
        return cls._inst

    def getTable(self, p):
        return NetworkTable(p if p.startswith("/") else "/" + p)

    def getTopic(self, k):
        return Topic(k)


def __getattr__(name):
    if name.startswith("__"):
        raise AttributeError(name)
    _w._poison(f"unmodelled API ntcore.{name} used")
    raise AttributeError(name)
