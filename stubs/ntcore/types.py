from typing import Sequence, Union

ValueT = Union[bool, int, float, str, bytes, Sequence[bool], Sequence[int], Sequence[float], Sequence[str]]
