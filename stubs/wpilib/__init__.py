"""Pure-Python nondeterministic stub of the wpilib surface used by /repo (SYM world).

Every call that returns environment data delegates to ``wpilib.ENV`` (an object the
harness installs per path).  Unmodelled attributes poison the path (harness error),
they never silently succeed.
"""
import sys

ENV = None


def env():
    return ENV


def _poison(why):
    from engine import symex

    c = symex.ctx()
    if c is not None:
        c.set_poison(why)


class RobotBase:
    def __init__(self):
        pass

    @staticmethod
    def isSimulation():
        return True

    @staticmethod
    def isReal():
        return False

    def getControlState(self):
        return env().control_state()


class Timer:
    def __init__(self):
        self._start = None
        self._running = False

    @staticmethod
    def getFPGATimestamp():
        return env().now_s()

    def start(self):
        if not self._running:
            self._start = env().now_s()
            self._running = True

    def reset(self):
        self._start = env().now_s()

    def restart(self):
        self._start = env().now_s()
        self._running = True

    def get(self):
        if self._start is None:
            return 0.0
        return env().now_s() - self._start


class RobotController:
    @staticmethod
    def getFPGATime():
        return env().now_us()

    @staticmethod
    def getTime():
        # the FPGA clock unless the program installed its own time source (RobotController.setTimeSource):
        # symbolic offset where the environment models one, a fixed 1.5 s elsewhere
        ts = getattr(env(), "time_source_us", None)
        return ts() if ts is not None else env().now_us() + 1500000


class DriverStation:
    @staticmethod
    def isDSAttached():
        return env().ds_attached

    @staticmethod
    def isFMSAttached():
        return env().fms_attached()

    @staticmethod
    def refreshData():
        env().refresh()

    @staticmethod
    def isTeleopEnabled():
        e, a, t = env().word
        return e and not a and not t

    @staticmethod
    def isAutonomousEnabled():
        e, a, t = env().word
        return e and a

    @staticmethod
    def getBatteryVoltage():
        return 12.0


class DSControlWord:
    def __init__(self):
        self.w = env().word
        self._ds = env().ds_attached

    def isEnabled(self):
        return self.w[0]

    def isAutonomous(self):
        return self.w[1]

    def isTest(self):
        return self.w[2]

    def isDSAttached(self):
        return self._ds


class SmartDashboard:
    data = {}

    @staticmethod
    def updateValues():
        pass

    @staticmethod
    def putData(k, v):
        SmartDashboard.data[k] = v

    @staticmethod
    def putStringArray(k, v):
        SmartDashboard.data[k] = v

    @staticmethod
    def getString(k, d):
        return env().sd_get_string(k, d)


class LiveWindow:
    @staticmethod
    def updateValues():
        pass

    @staticmethod
    def setEnabled(b):
        pass


class SendableChooser:
    def __init__(self):
        self.opts = {}
        self.default = None
        self.selected = None

    def addOption(self, k, v):
        self.opts[k] = v

    def setDefaultOption(self, k, v):
        self.opts[k] = v
        self.default = k

    def getSelected(self):
        k = self.selected if self.selected is not None else self.default
        return self.opts.get(k)


def reportError(msg, trace=False):
    e = env()
    if hasattr(e, "errors"):
        e.errors.append(msg)


class Watchdog:
    pass


class TimedRobot(RobotBase):
    pass


class Joystick:
    def __init__(self, port=0):
        self.port = port

    def getRawButton(self, b):
        return env().raw_button(self, b)


class AnalogInput:
    def __init__(self, ch):
        self.ch = ch

    def getVoltage(self):
        return env().analog_voltage(self)

    def getAverageVoltage(self):
        return env().analog_avg_voltage(self)


class Counter:
    def __init__(self, ch):
        self.ch = ch
        self.semi = None

    def setSemiPeriodMode(self, highSemiPeriod):
        self.semi = highSemiPeriod

    def getPeriod(self):
        return env().counter_period(self)


def __getattr__(name):
    if name.startswith("__"):
        raise AttributeError(name)
    _poison(f"unmodelled API wpilib.{name} used")
    raise AttributeError(f"wpilib stub has no attribute {name}")
