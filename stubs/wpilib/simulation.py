"""wpilib.simulation stub: only AnalogInputSim (used by distance_sensors_sim)."""
import wpilib


class AnalogInputSim:
    def __init__(self, ai):
        self.ai = ai

    def setVoltage(self, v):
        wpilib.env().set_analog_voltage(self.ai, v)

    def getVoltage(self):
        return wpilib.env().analog_voltage(self.ai)


def __getattr__(name):
    if name.startswith("__"):
        raise AttributeError(name)
    wpilib._poison(f"unmodelled API wpilib.simulation.{name} used")
    raise AttributeError(name)
